#!/usr/bin/env python3
"""Driver: contract-based deductive verification of betaveros/noulith (see /verif/DESIGN.md).

  check.py <PROPERTY-ID> [--tier quick|thorough] [--replay FILE] [--keep] [--units a,b] [--verbose]

exit 0  every obligation serving the property was discharged (known findings are printed, not raised)
exit 1  a named obligation failed:  VIOLATION property=<id> replay=<path> [no-failing-input-found]
exit 2  undecided (lost anchor, unsupported construct, rlimit, tool failure): never an alarm
"""
import argparse
import concurrent.futures
import hashlib
import importlib
import json
import os
import re
import shutil
import subprocess
import sys
import time

HERE = os.path.dirname(os.path.abspath(__file__))
VERIF = os.path.dirname(HERE)
sys.path.insert(0, HERE)

from assemble import Bundle, Source, emit_items, Seg  # noqa: E402
from rustscan import ScanError  # noqa: E402
import properties as P  # noqa: E402

REPO = os.environ.get('VERIF_REPO', '/repo')
RLIMIT = os.environ.get('VERIF_RLIMIT', '10')
VERUS_THREADS = os.environ.get('VERIF_VERUS_THREADS', '6')

SEMANTIC = [
    ('postcondition not satisfied', 'ensures'),
    ('unable to prove post-condition of closure', 'ensures'),
    ('precondition not satisfied', 'precondition'),
    ('possible arithmetic underflow/overflow', 'overflow'),
    ('possible division by zero', 'div0'),
    ('possible bit shift underflow/overflow', 'overflow'),
    ('invariant not satisfied before loop', 'invariant'),
    ('invariant not satisfied at end of loop body', 'invariant'),
    ('loop invariant not satisfied', 'invariant'),
    ('decreases not satisfied', 'termination'),
    ('could not prove termination', 'termination'),
    ('assertion failed', 'assert'),
    ('unreachable', 'assert'),
    ('cannot show invariant', 'invariant'),
    ('value may be out of range', 'overflow'),
]
UNDECIDED_MARKERS = ['Resource limit', 'rlimit', 'timed out', 'not supported', 'unsupported']


class Undecided(Exception):
    pass


def log(*a):
    print(*a, flush=True)


def sh(cmd, **kw):
    return subprocess.run(cmd, text=True, capture_output=True, **kw)


# --------------------------------------------------------------------------- scratch copy
class Scratch:
    def __init__(self, keep=False):
        base = os.environ.get('VERIF_SCRATCH', '/var/tmp')
        self.dir = os.path.join(base, 'noulith-verif.%d' % os.getpid())
        self.keep = keep

    def __enter__(self):
        shutil.rmtree(self.dir, ignore_errors=True)
        os.makedirs(self.dir)
        self.repo = os.path.join(self.dir, 'repo')
        r = sh(['rsync', '-a', '--exclude', '/target', '--exclude', '/.git', REPO + '/', self.repo + '/'])
        if r.returncode != 0:
            raise Undecided('rsync failed: ' + r.stderr[-300:])
        self.build = os.path.join(self.dir, 'build')
        os.makedirs(self.build)
        return self

    def __exit__(self, *a):
        if not self.keep:
            shutil.rmtree(self.dir, ignore_errors=True)


def tree_hash(repo):
    h = hashlib.sha256()
    for root, dirs, files in os.walk(os.path.join(repo, 'src')):
        dirs.sort()
        for f in sorted(files):
            p = os.path.join(root, f)
            h.update(p[len(repo):].encode())
            with open(p, 'rb') as fh:
                h.update(fh.read())
    with open(os.path.join(repo, 'Cargo.toml'), 'rb') as fh:
        h.update(fh.read())
    return h.hexdigest()


def expand(scratch):
    """rustc's own macro expansion of the scratch copy of the crate (rule: macro-generated items are
    verified on the text rustc itself produces)."""
    out = os.path.join(scratch.dir, 'expanded.rs')
    env = dict(os.environ, RUSTC_BOOTSTRAP='1', CARGO_NET_OFFLINE='true',
               CARGO_TARGET_DIR=os.path.join(VERIF, '.cache', 'expand-target'))
    env.pop('RUSTUP_TOOLCHAIN', None)
    t0 = time.time()
    import fcntl
    import replay_search
    os.makedirs(env['CARGO_TARGET_DIR'], exist_ok=True)
    with open(os.path.join(env['CARGO_TARGET_DIR'], '.verif-lock'), 'w') as lk:
        fcntl.flock(lk, fcntl.LOCK_EX)
        replay_search.forget_crate(env['CARGO_TARGET_DIR'])   # never let cargo treat another scratch copy's expansion as fresh
        r = subprocess.run(['cargo', 'rustc', '--lib', '--offline', '--', '-Zunpretty=expanded'],
                           cwd=scratch.repo, env=env, capture_output=True, text=True)
    if r.returncode != 0 or len(r.stdout) < 1000:
        raise Undecided('macro expansion failed (the tree may not compile): ' + r.stderr[-800:])
    with open(out, 'w') as f:
        f.write(r.stdout)
    return out, time.time() - t0


def unsafe_scan(repo):
    hits = []
    for root, _d, files in os.walk(os.path.join(repo, 'src')):
        for f in files:
            if f.endswith('.rs'):
                from rustscan import mask
                t = open(os.path.join(root, f), encoding='utf-8').read()
                m = mask(t)
                for mm in re.finditer(r'\bunsafe\b', m):
                    hits.append('%s:%d' % (f, t.count('\n', 0, mm.start()) + 1))
    return hits


# --------------------------------------------------------------------------- units
def load_unit(name):
    return importlib.import_module('units.' + name)


def read(path):
    with open(path, encoding='utf-8') as f:
        return f.read()


TRUST_PATTERNS = [r'external_body', r'assume_specification', r'\bassume\s*\(', r'\badmit\s*\(', r'\buninterp\b',
                  r'verifier::truncate', r'external_type_specification', r'external_trait_specification',
                  r'#\[verifier::external\]', r'\baxiom\b']


def unit_preludes(unit):
    out = []
    for u in [load_unit(d) for d in unit.DEPS] + [unit]:
        for p in u.PRELUDE:
            if p not in out:
                out.append(p)
    return out


def prelude_text(names):
    """each prelude file becomes its own module (so that the root module's `broadcast use` of prelude axioms is not a
    self-reference); everything is re-exported into the root"""
    hdr = read(os.path.join(HERE, 'prelude', '_crate_header.rs'))
    uses = ''.join(l + '\n' for l in hdr.splitlines() if l.startswith('use '))
    out = [hdr]
    # macro_rules must be textually before the modules that use them
    for p in names:
        body = read(os.path.join(HERE, 'prelude', p + '.rs'))
        macros = ''.join(l + '\n' for l in body.splitlines() if l.startswith('macro_rules!'))
        body = ''.join(l + '\n' for l in body.splitlines() if not l.startswith('macro_rules!') and not l.startswith('use '))
        out.append(macros)
        out.append('pub mod p_%s {\n%suse super::*;\n%s}\npub use p_%s::*;\n' % (p, uses, body, p))
        for m in re.finditer(r'^// reexport: (.*)$', body, re.M):  # names that would clash with vstd globs
            for nm in m.group(1).split(','):
                out.append('pub use p_%s::%s;\n' % (p, nm.strip()))
    return ''.join(out)


def assemble_unit(unit, src):
    b = Bundle()
    b.add_text(prelude_text(unit_preludes(unit)), 'prelude')
    metas = []
    b.add_text('verus! {\n', 'glue')
    # dependency units: contract only (callers are checked against the callee's contract, not its body)
    for dep in unit.DEPS:
        du = load_unit(dep)
        want = getattr(unit, 'DEP_ITEMS', {}).get(dep)
        items = [it for it in du.ITEMS if (want is None or it.id in want or it.kind == 'type')]
        segs, m = emit_items(src, items, stub_ids={it.id for it in items if it.kind != 'type'})
        for s in segs:
            if s.item:
                s.item = dep + '::' + s.item
        b.add(segs)
        metas += [dict(x, unit=dep, stub=(x.get('stub') or False)) for x in m]
    segs, m = emit_items(src, unit.ITEMS)
    b.add(segs)
    b.add_text('} // verus!\n', 'glue')
    done = set()
    bcast = []
    for u in [load_unit(d) for d in unit.DEPS] + [unit]:
        for sp in u.SPECS:
            if sp in done:
                continue
            done.add(sp)
            if sp.startswith('gen:'):
                def grab0(m):
                    bcast.extend(x.strip() for x in m.group(1).replace('\n', ' ').split(',') if x.strip())
                    return ''
                b.add_text(re.sub(r'^broadcast use ([^;]*);', grab0, u.GENERATED_SPECS[sp[4:]], flags=re.M), 'spec')
            else:
                body = read(os.path.join(HERE, 'specs', sp))
                if body.startswith('// module'):
                    # own module: the root's module-level `broadcast use` may then name its lemmas without a cycle
                    hdr = read(os.path.join(HERE, 'prelude', '_crate_header.rs'))
                    uses = ''.join(l + '\n' for l in hdr.splitlines() if l.startswith('use '))
                    nm = 's_' + sp.replace('.rs', '')
                    body = 'pub mod %s {\n%suse super::*;\n%s}\npub use %s::*;\n' % (nm, uses, body, nm)
                if not body.startswith('pub mod s_'):
                    # Verus allows one module-level `broadcast use` per module: collect them from all spec files
                    def grab(m):
                        bcast.extend(x.strip() for x in m.group(1).replace('\n', ' ').split(',') if x.strip())
                        return ''
                    body = re.sub(r'^broadcast use ([^;]*);', grab, body, flags=re.M)
                b.add_text(body, 'spec')
    if bcast:
        uniq = []
        for x in bcast:
            if x not in uniq:
                uniq.append(x)
        b.add_text('verus! { broadcast use %s; }\n' % ', '.join(uniq), 'spec')
    b.add_text('fn main() {}\n', 'glue')
    metas += [dict(x, unit=unit.NAME) for x in m]
    return b, metas


def enumerate_obligations(unit):
    """static list of named obligations for the items verified with their bodies"""
    obs = []
    for it in unit.ITEMS:
        if it.kind == 'type' or it.no_body_check:
            continue
        base = '%s.%s' % (unit.NAME, it.id)
        for name, _e in it.ensures:
            obs.append(dict(id='%s.ensures.%s' % (base, name), item=it.id, kind='ensures', props=list(it.props)))
        for k, spec in it.closures.items():
            for name, _e in spec.get('ensures', []):
                kk = ('closure%d' % k) if isinstance(k, int) else 'closures(%s)' % k
                obs.append(dict(id='%s.ensures.%s.%s' % (base, kk, name), item=it.id, kind='ensures', props=list(it.props)))
        for k, spec in it.loops.items():
            lk = ('loop%d' % k) if isinstance(k, int) else 'loop[%s]' % k
            for name, _e in spec.get('invariant', []):
                obs.append(dict(id='%s.invariant.%s.%s' % (base, lk, name), item=it.id, kind='invariant',
                                props=list(it.props)))
            if spec.get('decreases'):
                obs.append(dict(id='%s.termination.%s' % (base, lk), item=it.id, kind='termination',
                                props=sorted(set(it.props) | set(it.safety_props))))
        if it.decreases:
            obs.append(dict(id='%s.termination' % base, item=it.id, kind='termination',
                            props=sorted(set(it.props) | set(it.safety_props))))
        if it.hints:
            obs.append(dict(id='%s.proof_step' % base, item=it.id, kind='proof', props=list(it.props),
                            note='%d ghost proof steps spliced at anchored statements' % len(it.hints)))
        obs.append(dict(id='%s.safety' % base, item=it.id, kind='safety',
                        props=sorted(set(it.props) | set(it.safety_props)),
                        note='no overflow / division by zero / out-of-range cast / out-of-bounds index / reachable '
                             'panic!,todo!,unreachable!,expect / violated callee precondition in this body'))
    return obs


def run_verus(path, extra=(), rlimit=None):
    env = dict(os.environ)
    cmd = ['verus', path, '--output-json', '--time', '--multiple-errors', '20', '--error-format=json',
           '--rlimit', rlimit or RLIMIT, '--num-threads', VERUS_THREADS] + list(extra)
    t0 = time.time()
    try:
        r = subprocess.run(cmd, capture_output=True, text=True, env=env, cwd=os.path.dirname(path), timeout=int(os.environ.get('VERIF_VERUS_TIMEOUT', '600')))
    except subprocess.TimeoutExpired:
        raise Undecided('verus wall-clock timeout on ' + os.path.basename(path))
    wall = time.time() - t0
    diags = []
    for line in r.stderr.splitlines():
        line = line.strip()
        if line.startswith('{'):
            try:
                d = json.loads(line)
                if d.get('$message_type') == 'diagnostic':
                    diags.append(d)
            except ValueError:
                pass
    try:
        js = json.loads(r.stdout) if r.stdout.strip().startswith('{') else None
    except ValueError:
        js = None
    return dict(rc=r.returncode, diags=diags, json=js, wall=wall, stderr=r.stderr, cmd=' '.join(cmd))


def classify(diag):
    msg = diag.get('message', '')
    for pat, kind in SEMANTIC:
        if pat in msg:
            return kind
    return None


def seg_at(linemap, line):
    if 0 < line < len(linemap):
        return linemap[line]
    return None


def map_failures(unit, res, linemap):
    """-> (failures, undecided_reasons). failure = dict(obligation, kind, message, rendered, item, ...)"""
    failures, undec = [], []
    itemsby = {it.id: it for it in unit.ITEMS}
    for d in res['diags']:
        if d.get('level') != 'error':
            continue
        msg = d.get('message', '')
        if msg.startswith('aborting due to'):
            continue
        kind = classify(d)
        prim = [s for s in d.get('spans', []) if s.get('is_primary')]
        sec = [s for s in d.get('spans', []) if not s.get('is_primary')]
        if kind is None or not prim:
            undec.append('%s: %s' % (unit.NAME, msg[:300]))
            continue
        if any(mk in msg for mk in UNDECIDED_MARKERS):
            undec.append('%s: %s' % (unit.NAME, msg[:300]))
            continue
        ps = prim[0]
        foreign = not ps.get('file_name', '').endswith(unit.NAME + '.rs')
        if foreign:
            # the failed clause lives in vstd (e.g. the PartialEq/Ord/From spec an impl must obey): charge it to the function
            # whose body is named by the in-bundle span of the same diagnostic
            local = [s for s in d.get('spans', []) if s.get('file_name', '').endswith(unit.NAME + '.rs')]
            if not local:
                undec.append('%s: %s (no span inside the bundle)' % (unit.NAME, msg))
                continue
            ps = local[0]
        hit = seg_at(linemap, ps['line_start'])
        seg = hit[0] if hit else None
        if seg is None or seg.item is None or '::' in (seg.item or ''):
            # failure inside prelude/spec/lemma/stub text: proof machinery, not the code
            undec.append('%s: %s at bundle line %d (spec/prelude region)' % (unit.NAME, msg, ps['line_start']))
            continue
        it = itemsby.get(seg.item)
        base = '%s.%s' % (unit.NAME, seg.item)
        f = dict(unit=unit.NAME, item=seg.item, kind=kind, message=msg, rendered=d.get('rendered', ''))
        if seg.src_file:
            f['src'] = '%s:%d' % (seg.src_file, seg.src_line + (hit[1] if seg.region in ('body', 'sig') else 0))
        if foreign and seg.region in ('body', 'body-other', 'sig', 'stubbody'):
            f['obligation'] = '%s.std_trait_spec' % base
            f['detail'] = kind
            f['props'] = list(it.props)
        elif kind == 'ensures' and seg.region == 'ensures':
            f['obligation'] = '%s.ensures.%s' % (base, seg.clause)
            f['props'] = list(it.props)
            ex = [s for s in sec if 'exit' in (s.get('label') or '')]
            if ex:
                h2 = seg_at(linemap, ex[0]['line_start'])
                if h2 and h2[0].src_file:
                    f['at_exit'] = '%s:%d' % (h2[0].src_file, h2[0].src_line + h2[1])
        elif kind == 'ensures' and seg.region == 'closure-ensures':
            f['obligation'] = '%s.ensures.%s' % (base, seg.clause)
            f['props'] = list(it.props)
        elif kind == 'invariant' and seg.region == 'invariant':
            f['obligation'] = '%s.invariant.%s' % (base, seg.clause)
            f['props'] = list(it.props)
        elif kind == 'termination':
            f['obligation'] = '%s.termination' % base + ('.' + seg.clause.split('.')[0] if seg.clause.startswith('loop') else '')
            f['props'] = sorted(set(it.props) | set(it.safety_props))
        elif seg.region == 'hint':
            # an intermediate proof step of this function (spliced ghost code) no longer goes through: the function's
            # postconditions are not established any more
            f['obligation'] = '%s.proof_step' % base
            f['detail'] = kind
            f['props'] = list(it.props)
        elif seg.region in ('body', 'body-other', 'sig'):
            detail = kind
            if kind == 'precondition':
                cal = [s for s in sec if 'failed precondition' in (s.get('label') or '')]
                if cal:
                    h2 = seg_at(linemap, cal[0]['line_start'])
                    txt = ' '.join(t['text'].strip() for t in cal[0].get('text', []))
                    if h2 and h2[0].clause:
                        detail = 'precondition(%s.%s)' % (h2[0].item, h2[0].clause)
                    else:
                        detail = 'precondition(%s)' % txt[:120]
            f['obligation'] = '%s.safety' % base
            f['detail'] = detail
            f['props'] = sorted(set(it.props) | set(it.safety_props))
        else:
            undec.append('%s: %s mapped to region %s of %s' % (unit.NAME, msg, seg.region, seg.item))
            continue
        failures.append(f)
    # non-diagnostic failure
    js = res['json']
    if js is None:
        undec.append('%s: verus produced no JSON (rc=%s): %s' % (unit.NAME, res['rc'], res['stderr'][-400:]))
    else:
        vr = js.get('verification-results', {})
        if vr.get('encountered-vir-error'):
            undec.append('%s: verus VIR error' % unit.NAME)
        if not vr.get('success') and not failures and not undec:
            undec.append('%s: verus reported failure without a mappable diagnostic' % unit.NAME)
    return failures, undec


def smt_times(res):
    out = {}
    js = res['json'] or {}
    try:
        for m in js['times-ms']['smt']['smt-run-module-times']:
            for fb in m.get('function-breakdown', []):
                out[fb['function']] = dict(ms=fb['time'], rlimit=fb.get('rlimit'), success=fb.get('success'))
    except (KeyError, TypeError):
        pass
    return out


def trusted_scan(text):
    found = []
    for i, line in enumerate(text.splitlines(), 1):
        for pat in TRUST_PATTERNS:
            if re.search(pat, line):
                found.append((i, line.strip()))
                break
    return found


def run_unit(name, src, scratch, verbose=False):
    unit = load_unit(name)
    bundle, metas = assemble_unit(unit, src)
    text, linemap = bundle.render()
    path = os.path.join(scratch.build, name + '.rs')
    with open(path, 'w') as f:
        f.write(text)
    res = run_verus(path)
    failures, undec = map_failures(unit, res, linemap)
    confirmed = None
    if failures or any('(spec/prelude region)' in u or 'rlimit' in u.lower() or 'resource limit' in u.lower() for u in undec):
        # an SMT failure is reported only if it persists with three times the resource limit: quantifier-instantiation order
        # makes single runs of Z3 flaky on nonlinear steps, and a flaky failure is not a fact about /repo
        res2 = run_verus(path, rlimit=str(int(float(RLIMIT) * 3)))
        f2, u2 = map_failures(unit, res2, linemap)
        keep = {f['obligation'] for f in f2}
        confirmed = dict(first=sorted({f['obligation'] for f in failures}), second=sorted(keep))
        failures = [f for f in failures if f['obligation'] in keep]
        undec = u2
        res = dict(res2, wall=res['wall'] + res2['wall'])
    obs = enumerate_obligations(unit)
    failed_ids = {f['obligation'] for f in failures}
    vr = (res['json'] or {}).get('verification-results', {})
    # trusted base: scan + describe following line for context
    tb = []
    lines = text.splitlines()
    for (ln, l) in trusted_scan(text):
        ctx = l
        if ln < len(lines) and ('external_body' in l or 'assume_specification' in l) and len(l) < 60:
            ctx = l + ' ' + lines[ln].strip()
        tb.append(ctx[:200])
    return dict(unit=name, obligations=obs, failures=failures, undecided=undec, metas=metas,
                verified=vr.get('verified', 0), errors=vr.get('errors', 0), wall=res['wall'],
                smt=smt_times(res), cmd=res['cmd'], trusted=tb, confirmation_rerun=confirmed, bundle_lines=len(lines),
                bundle_sha256=hashlib.sha256(text.encode()).hexdigest(), failed_ids=sorted(failed_ids),
                smt_total_ms=((res['json'] or {}).get('times-ms', {}).get('smt', {}) or {}).get('total'))


def run_canary(unit_names, scratch):
    """vacuity guard (iii): `ensures false` must FAIL against the union of preludes + specs"""
    preludes, specs = [], []
    for n in unit_names:
        for p in unit_preludes(load_unit(n)):
            if p not in preludes:
                preludes.append(p)
    text = prelude_text(preludes)
    text += 'verus! { proof fn verif_canary() ensures false {} }\nfn main() {}\n'
    path = os.path.join(scratch.build, 'canary.rs')
    with open(path, 'w') as f:
        f.write(text)
    res = run_verus(path)
    bad = [d for d in res['diags'] if d.get('level') == 'error' and 'postcondition not satisfied' in d.get('message', '')]
    others = [d for d in res['diags'] if d.get('level') == 'error' and 'postcondition' not in d.get('message', '')
              and not d.get('message', '').startswith('aborting')]
    if others:
        raise Undecided('canary bundle does not compile: ' + others[0].get('message', '')[:300])
    return len(bad) == 1


# --------------------------------------------------------------------------- known findings
def load_known():
    path = os.path.join(VERIF, 'known_findings.txt')
    out = []
    if os.path.exists(path):
        for line in open(path):
            line = line.strip()
            if line.startswith('finding:'):
                m = re.match(r'finding:\s+property=(\S+)\s+obligation=(\S+)(?:\s+detail=(\S+))?\s+(.*)', line)
                if m:
                    out.append(dict(prop=m.group(1), obligation=m.group(2), detail=m.group(3), what=m.group(4)))
    return out


def is_known(known, prop, f):
    for k in known:
        if k['prop'] == prop and k['obligation'] == f['obligation'] and (k['detail'] is None or k['detail'] == f.get('detail')):
            return k
    return None


# --------------------------------------------------------------------------- main
def main():
    ap = argparse.ArgumentParser()
    ap.add_argument('prop')
    ap.add_argument('--tier', default=os.environ.get('VERIF_TIER', 'quick'))
    ap.add_argument('--replay')
    ap.add_argument('--keep', action='store_true')
    ap.add_argument('--units')
    ap.add_argument('--verbose', action='store_true')
    ap.add_argument('--no-evidence', action='store_true')
    args = ap.parse_args()
    if args.tier not in ('quick', 'thorough'):
        args.tier = 'quick'
    prop = args.prop
    if prop not in P.PROPS:
        log('unknown or unclaimed property', prop)
        return 2
    cfg = P.PROPS[prop]
    os.environ['VERIF_TIER'] = args.tier
    seed = int(os.environ.get('VERIF_SEED', '0') or 0)
    t0 = time.time()
    if args.replay:
        import replay
        return replay.rerun(args.replay, REPO)
    unit_names = args.units.split(',') if args.units else list(cfg['units'])
    evidence_path = os.path.join(VERIF, 'evidence', prop + '.json')
    try:
        with Scratch(keep=args.keep) as scratch:
            th = tree_hash(scratch.repo)
            unsafe_hits = unsafe_scan(scratch.repo)
            exp_path, exp_s = None, 0.0
            if any(load_unit(n).NEEDS_EXPANDED or any(load_unit(d).NEEDS_EXPANDED for d in load_unit(n).DEPS)
                   for n in unit_names):
                exp_path, exp_s = expand(scratch)
            src = Source(scratch.repo, exp_path)
            results = []
            with concurrent.futures.ThreadPoolExecutor(max_workers=4) as ex:
                futs = {ex.submit(run_unit, n, src, scratch, args.verbose): n for n in unit_names}
                canary_f = ex.submit(run_canary, unit_names, scratch)
                for fu in concurrent.futures.as_completed(futs):
                    results.append(fu.result())
                canary_ok = canary_f.result()
            results.sort(key=lambda r: unit_names.index(r['unit']))
            # Kani legs: always for properties whose Verus leg assumes a kernel (cfg['kani'] == 'quick'), otherwise thorough tier
            kmode = cfg.get('kani')
            if kmode == 'quick' or (kmode == 'thorough' and args.tier == 'thorough'):
                import kani_leg
                kt0 = time.time()
                kr = kani_leg.run(unit_names, scratch, log)
                if kr['obligations'] or kr['undecided']:
                    results.append(dict(unit='kani', obligations=kr['obligations'], failures=kr['failures'], undecided=kr['undecided'],
                                        metas=[], verified=len(kr['obligations']) - len(kr['failures']), errors=len(kr['failures']),
                                        wall=time.time() - kt0, smt={}, cmd='; '.join(i['cmd'] for i in kr['info']),
                                        trusted=['Kani 0.68 / CBMC (bit-precise, loop-free harnesses: complete for the full input domain)'],
                                        bundle_lines=0, bundle_sha256='', failed_ids=[], smt_total_ms=None, kani_info=kr['info']))
            if not canary_ok:
                raise Undecided('vacuity canary verified `false`: prelude axioms are inconsistent')
            extra = {}
            if args.tier == 'thorough' and cfg.get('thorough', True):
                import thorough
                extra = thorough.run(prop, cfg, scratch, src, log)
            return report(prop, cfg, args, results, seed, t0, th, unsafe_hits, exp_s, scratch, extra, evidence_path)
    except ScanError as e:
        log('UNDECIDED property=%s reason=anchor-lost: %s' % (prop, e))
        return undecided_with_bounded(prop, args, seed, t0, 'anchor-lost: ' + str(e), evidence_path)
    except Undecided as e:
        log('UNDECIDED property=%s reason=%s' % (prop, e))
        return undecided_with_bounded(prop, args, seed, t0, str(e), evidence_path)


def undecided_with_bounded(prop, args, seed, t0, why, evidence_path):
    """the proof could not even be attempted (lost anchor, tree does not expand): the bounded stand-in on the real interpreter
    still runs; it raises an alarm only through a concrete failing input"""
    bounded, lines = None, []
    try:
        import replay_search
        import replay
        if prop in replay_search.SUITES or prop == 'C14':
            binp, cleanup = replay_search.build(REPO)
            try:
                total, fails = replay_search.evaluate(binp, prop, limit=3)
            finally:
                cleanup()
            bounded = dict(label='BOUNDED stand-in (proof undecided): grid on the real interpreter vs exact reference semantics; not a proof',
                           cases=total, failing=len(fails))
            for k, w in enumerate(fails):
                path = replay.write_bounded(prop, dict(w, kind='interpreter-grid', property=prop), k)
                lines.append('VIOLATION property=%s replay=%s' % (prop, path))
    except Exception as e:
        bounded = dict(label='bounded stand-in did not run', error=repr(e)[:300])
    if not args.no_evidence:
        ev = dict(property_id=prop, tier=args.tier, seed=seed, level='other',
                  coverage=dict(explanation='UNDECIDED: ' + why, evaluations=max(1, (bounded or {}).get('cases', 0) or 1),
                                distinct_nontrivial=max(2, (bounded or {}).get('cases', 0) or 2), bounded=bounded),
                  assumptions=[], wall_s=round(time.time() - t0, 2), violations=len(lines))
        os.makedirs(os.path.dirname(evidence_path), exist_ok=True)
        with open(evidence_path, 'w') as f:
            json.dump(ev, f, indent=1)
    for l in lines:
        log(l)
    return 1 if lines else 2


def write_evidence_undecided(prop, args, seed, t0, why, path):
    if args.no_evidence:
        return
    ev = dict(property_id=prop, tier=args.tier, seed=seed, level='other',
              coverage=dict(explanation='UNDECIDED: ' + why, evaluations=1, distinct_nontrivial=0),
              assumptions=[], wall_s=round(time.time() - t0, 2), violations=0)
    with open(path, 'w') as f:
        json.dump(ev, f, indent=1)


def report(prop, cfg, args, results, seed, t0, th, unsafe_hits, exp_s, scratch, extra, evidence_path):
    known = load_known()
    all_obs, mine, failures, undec = [], [], [], []
    for r in results:
        undec += r['undecided']
        for o in r['obligations']:
            all_obs.append(o)
            if prop in o['props']:
                mine.append(o)
        for f in r['failures']:
            failures.append(f)
    my_fail = [f for f in failures if prop in f.get('props', [])]
    other_fail = [f for f in failures if prop not in f.get('props', [])]
    # vacuity guard (i): verus must have verified at least one function per body-checked item
    for r in results:
        n_items = len({o['item'] for o in r['obligations']})
        if r['verified'] + r['errors'] < n_items and not r['undecided']:
            undec.append('%s: verus verified %d functions but %d items are under contract' % (r['unit'], r['verified'], n_items))
    viol, knownhits = [], []
    seen = set()
    for f in my_fail:
        key = (f['obligation'], f.get('detail'))
        if key in seen:
            continue
        seen.add(key)
        k = is_known(known, prop, f)
        (knownhits if k else viol).append((f, k))
    failed_ids = {f['obligation'] for f in my_fail}
    discharged = [o for o in mine if o['id'] not in failed_ids]
    for f, k in knownhits:
        log('KNOWN-FINDING: property=%s %s -- %s' % (prop, f['obligation'], k['what']))
    for f in other_fail:
        log('note: obligation %s (serves %s) failed: %s' % (f['obligation'], ','.join(f.get('props', [])), f['message']))
    rc = 0
    vio_lines = []
    if viol:
        import replay
        for f, _k in viol:
            path, found = replay.write(prop, f, results, scratch, REPO)
            try:
                refuted = json.load(open(path)).get('refuted_on_real_code')
            except Exception:
                refuted = False
            if refuted:
                # a counterexample that the real code answers correctly is a disagreement between the tools (e.g. a stale build
                # artefact), not a fact about /repo: undecided, never an alarm
                undec.append('%s: the verifier\'s counterexample does not reproduce on the real code (see %s)' % (f['obligation'], path))
                continue
            line = 'VIOLATION property=%s replay=%s' % (prop, path)
            if not found:
                line += ' obligation=%s no-failing-input-found' % f['obligation']
            else:
                line = 'VIOLATION property=%s replay=%s' % (prop, path)
            vio_lines.append(line)
        rc = 1 if vio_lines else 0
    # bounded stand-in on the REAL interpreter (labelled bounded, never counted as proved): always in the thorough tier, and
    # whenever the proof is undecided; it can raise an alarm only through a concrete failing input of the real code
    bounded = None
    if (undec and not viol) or args.tier == 'thorough' or cfg.get('bounded', 'quick') == 'quick':
        try:
            import replay_search
            if prop in replay_search.SUITES or prop == 'C14':
                binp, cleanup = replay_search.build(scratch.repo)
                try:
                    total, fails = replay_search.evaluate(binp, prop, limit=3)
                finally:
                    cleanup()
                bounded = dict(label='BOUNDED stand-in: grid of programs run on the real interpreter built from this tree, compared with '
                                     'exact Python reference semantics; not a proof, never counted in obligations/discharged',
                               suite=(replay_search.SUITES[prop].__doc__ if prop in replay_search.SUITES else 'crash-freedom over the C06/C07/C08/C10/C11 grids'),
                               cases=total, failing=len(fails))
                import replay
                for k, w in enumerate(fails):
                    w = dict(w, kind='interpreter-grid', property=prop)
                    path = replay.write_bounded(prop, w, k)
                    vio_lines.append('VIOLATION property=%s replay=%s' % (prop, path))
                    rc = 1
        except Exception as e:  # the stand-in must never turn a tool problem into an alarm
            bounded = dict(label='bounded stand-in did not run', error=repr(e)[:300])
    if undec:
        for u in undec:
            log('UNDECIDED property=%s reason=%s' % (prop, u))
        if rc == 0:
            rc = 2
    # ---------------- evidence
    if not args.no_evidence:
        trusted = []
        for r in results:
            for t in r['trusted']:
                if t not in trusted:
                    trusted.append(t)
        functions = []
        for r in results:
            for m in r['metas']:
                functions.append(m)
        smt = {}
        for r in results:
            smt[r['unit']] = dict(wall_s=round(r['wall'], 2), smt_total_ms=r['smt_total_ms'], verified_fns=r['verified'],
                                  errors=r['errors'], bundle_lines=r['bundle_lines'], bundle_sha256=r['bundle_sha256'])
        samples = [dict(obligation=o['id'], kind=o['kind']) for o in mine[:6]]
        cov = dict(
            obligations=len(mine), discharged=len(discharged),
            checker_cmd=results[0]['cmd'].replace(scratch.dir, '$SCRATCH') if results else 'verus',
            trusted_base=trusted,
            backend='Verus 0.2026.09.13 (Z3) single-file mode, rlimit %s' % RLIMIT,
            units=smt, functions_under_contract=functions,
            functions_verified_with_body=len([m for m in functions if not m.get('stub')]),
            samples=samples, tree_sha256=th, expansion_s=round(exp_s, 2),
            unsafe_keyword_hits=unsafe_hits,
            failed=[dict(obligation=f['obligation'], detail=f.get('detail'), message=f['message'], src=f.get('src')) for f in my_fail],
            known_findings_hit=[f['obligation'] for f, _k in knownhits],
            undecided=undec, vacuity_canary='ensures false fails against the prelude: ok',
            extraction_drops=P.EXTRACTION_DROPS, not_covered=cfg.get('not_covered', ''),
        )
        cov.update(extra or {})
        if bounded is not None:
            cov['bounded'] = bounded
        ev = dict(property_id=prop, tier=args.tier, seed=seed, level='proof', coverage=cov,
                  assumptions=P.ASSUMPTIONS + cfg.get('assumptions', []), wall_s=round(time.time() - t0, 2),
                  violations=len(vio_lines))
        if not mine or rc == 2:
            ev['level'] = 'other'
            cov['explanation'] = 'undecided run: ' + '; '.join(undec)[:2000]
            cov['evaluations'] = max(1, len(mine))
            cov['distinct_nontrivial'] = len(discharged)
        os.makedirs(os.path.dirname(evidence_path), exist_ok=True)
        with open(evidence_path, 'w') as f:
            json.dump(ev, f, indent=1)
    for l in vio_lines:
        log(l)
    log('%s: %d obligations, %d discharged, %d violations, %d known, %d undecided  (%.1fs)' % (
        prop, len(mine), len(discharged), len(viol), len(knownhits), len(undec), time.time() - t0))
    return rc


if __name__ == '__main__':
    sys.exit(main())
