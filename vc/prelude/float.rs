// ===== TRUSTED PRELUDE (float) =====
// f64 enters only through axioms. Each float denotes NaN, +inf, -inf or an exact real (`fv`); +0.0 and -0.0 both denote
// Fin(0). Comparison, classification, integer rounding and exact conversion are axiomatised from IEEE-754 / std docs;
// float ARITHMETIC (+ - * / % powf ...) is left UNINTERPRETED: results of float arithmetic are never claimed.
verus! {

pub enum FV { NaN, PosInf, NegInf, Fin(real) }
pub uninterp spec fn fv(f: f64) -> FV;

// int -> real conversion is always written ir(i) so that the (proved) fact floor(ir(i)) == i can be triggered
pub open spec fn ir(i: int) -> real { i as real }
pub broadcast proof fn lemma_ir_floor(i: int) ensures (#[trigger] ir(i)).floor() == i {}
pub open spec fn real_trunc(x: real) -> int { if x >= 0real { x.floor() } else { -((-x).floor()) } }
pub open spec fn real_ceil(x: real) -> int { -((-x).floor()) }
// f64::round: half away from zero
pub open spec fn real_round(x: real) -> int { if x >= 0real { (x + 0.5real).floor() } else { -((-x + 0.5real).floor()) } }
pub open spec fn fv_map(v: FV, f: spec_fn(real) -> int) -> FV {
    match v { FV::Fin(x) => FV::Fin(ir(f(x))), other => other }
}

// ---- constants: Verus has no support for the associated constants f64::INFINITY / NEG_INFINITY / NAN;
//      the extractor substitutes these prelude functions for them (rule recorded per item) ----
pub uninterp spec fn F_INF() -> f64;
pub uninterp spec fn F_NEG_INF() -> f64;
pub uninterp spec fn F_NAN() -> f64;
pub broadcast axiom fn f_const_inf() ensures fv(#[trigger] F_INF()) == FV::PosInf;
pub broadcast axiom fn f_const_neg_inf() ensures fv(#[trigger] F_NEG_INF()) == FV::NegInf;
pub broadcast axiom fn f_const_nan() ensures fv(#[trigger] F_NAN()) == FV::NaN;
pub broadcast group f_consts { f_const_inf, f_const_neg_inf, f_const_nan }
#[verifier::external_body] pub fn f64_infinity() -> (r: f64) ensures r == F_INF() { f64::INFINITY }
#[verifier::external_body] pub fn f64_neg_infinity() -> (r: f64) ensures r == F_NEG_INF() { f64::NEG_INFINITY }
#[verifier::external_body] pub fn f64_nan() -> (r: f64) ensures r == F_NAN() { f64::NAN }
pub broadcast axiom fn f64_zero_literal() ensures #[trigger] fv(0.0f64) == FV::Fin(0real);
// unary minus on floats is not supported by Verus either; substituted by this function (exact in IEEE-754)
pub uninterp spec fn f_neg(a: f64) -> f64;
pub open spec fn fv_neg(v: FV) -> FV { match v { FV::NaN => FV::NaN, FV::PosInf => FV::NegInf, FV::NegInf => FV::PosInf, FV::Fin(x) => FV::Fin(-x) } }
pub broadcast axiom fn f_neg_value(a: f64) ensures fv(#[trigger] f_neg(a)) == fv_neg(fv(a));
#[verifier::external_body] pub fn f64_neg(a: f64) -> (r: f64) ensures r == f_neg(a) { -a }

// ---- arithmetic: uninterpreted functions of the operands ----
pub uninterp spec fn f_add(a: f64, b: f64) -> f64;
pub uninterp spec fn f_sub(a: f64, b: f64) -> f64;
pub uninterp spec fn f_mul(a: f64, b: f64) -> f64;
pub uninterp spec fn f_div(a: f64, b: f64) -> f64;
pub uninterp spec fn f_rem(a: f64, b: f64) -> f64;
pub uninterp spec fn f_div_euclid(a: f64, b: f64) -> f64;
pub uninterp spec fn f_rem_euclid(a: f64, b: f64) -> f64;
pub uninterp spec fn f_powi(a: f64, n: i32) -> f64;
pub uninterp spec fn f_powf(a: f64, b: f64) -> f64;
pub uninterp spec fn f_sqrt(a: f64) -> f64;
pub uninterp spec fn f_abs(a: f64) -> f64;
pub uninterp spec fn f_bits(a: f64) -> u64;
// float operators never panic (vstd leaves their `*_req` open)
pub broadcast axiom fn f64_add_req(a: f64, b: f64) ensures #[trigger] vstd::std_specs::ops::AddSpec::add_req(a, b);
pub broadcast axiom fn f64_sub_req(a: f64, b: f64) ensures #[trigger] vstd::std_specs::ops::SubSpec::sub_req(a, b);
pub broadcast axiom fn f64_mul_req(a: f64, b: f64) ensures #[trigger] vstd::std_specs::ops::MulSpec::mul_req(a, b);
pub broadcast axiom fn f64_div_req(a: f64, b: f64) ensures #[trigger] vstd::std_specs::ops::DivSpec::div_req(a, b);
pub broadcast axiom fn f64_rem_req(a: f64, b: f64) ensures #[trigger] vstd::std_specs::ops::RemSpec::rem_req(a, b);
pub broadcast axiom fn f64_add_val(a: f64, b: f64, o: f64) requires #[trigger] add_ensures::<f64>(a, b, o) ensures o == f_add(a, b);
pub broadcast axiom fn f64_sub_val(a: f64, b: f64, o: f64) requires #[trigger] sub_ensures::<f64>(a, b, o) ensures o == f_sub(a, b);
pub broadcast axiom fn f64_mul_val(a: f64, b: f64, o: f64) requires #[trigger] mul_ensures::<f64>(a, b, o) ensures o == f_mul(a, b);
pub broadcast axiom fn f64_div_val(a: f64, b: f64, o: f64) requires #[trigger] div_ensures::<f64>(a, b, o) ensures o == f_div(a, b);

// ---- comparison (IEEE: NaN is unordered and unequal to everything; -0 == +0) ----
pub open spec fn fv_eq(a: FV, b: FV) -> bool { !(a is NaN) && a == b }
pub open spec fn fv_lt(a: FV, b: FV) -> bool {
    match (a, b) {
        (FV::NaN, _) => false, (_, FV::NaN) => false,
        (FV::NegInf, FV::NegInf) => false, (FV::NegInf, _) => true,
        (_, FV::NegInf) => false,
        (FV::PosInf, _) => false, (_, FV::PosInf) => true,
        (FV::Fin(x), FV::Fin(y)) => x < y,
    }
}
pub open spec fn fv_partial_cmp(a: FV, b: FV) -> Option<Ordering> {
    if a is NaN || b is NaN { None } else if fv_lt(a, b) { Some(Ordering::Less) } else if fv_lt(b, a) { Some(Ordering::Greater) } else { Some(Ordering::Equal) }
}
pub broadcast axiom fn f64_eq_val(a: f64, b: f64, o: bool) requires #[trigger] vstd::std_specs::cmp::eq_ensures::<f64>(a, b, o) ensures o == fv_eq(fv(a), fv(b));
pub broadcast axiom fn f64_ne_val(a: f64, b: f64, o: bool) requires #[trigger] vstd::std_specs::cmp::ne_ensures::<f64>(a, b, o) ensures o == !fv_eq(fv(a), fv(b));
pub broadcast axiom fn f64_lt_val(a: f64, b: f64, o: bool) requires #[trigger] vstd::std_specs::cmp::lt_ensures::<f64>(a, b, o) ensures o == fv_lt(fv(a), fv(b));
pub broadcast axiom fn f64_gt_val(a: f64, b: f64, o: bool) requires #[trigger] vstd::std_specs::cmp::gt_ensures::<f64>(a, b, o) ensures o == fv_lt(fv(b), fv(a));
pub broadcast axiom fn f64_partial_cmp_val(a: f64, b: f64, o: Option<Ordering>) requires #[trigger] vstd::std_specs::cmp::partial_cmp_ensures::<f64>(a, b, o) ensures o == fv_partial_cmp(fv(a), fv(b));

// the same facts stated on vstd's PartialEqSpec / PartialOrdSpec for f64 (vstd leaves them open); comparisons through
// references (`&f64 == &f64`) and inside tuples are specified by vstd in terms of these
pub broadcast axiom fn f64_obeys_eq() ensures #[trigger] <f64 as vstd::std_specs::cmp::PartialEqSpec<f64>>::obeys_eq_spec();
pub broadcast axiom fn f64_eq_spec(a: f64, b: f64) ensures #[trigger] <f64 as vstd::std_specs::cmp::PartialEqSpec<f64>>::eq_spec(&a, &b) == fv_eq(fv(a), fv(b));
pub broadcast axiom fn f64_obeys_partial_cmp() ensures #[trigger] <f64 as vstd::std_specs::cmp::PartialOrdSpec<f64>>::obeys_partial_cmp_spec();
pub broadcast axiom fn f64_partial_cmp_spec(a: f64, b: f64) ensures #[trigger] <f64 as vstd::std_specs::cmp::PartialOrdSpec<f64>>::partial_cmp_spec(&a, &b) == fv_partial_cmp(fv(a), fv(b));
pub broadcast group f64_cmp_specs { f64_obeys_eq, f64_eq_spec, f64_obeys_partial_cmp, f64_partial_cmp_spec }

// ---- classification / rounding (std documented behaviour) ----
pub assume_specification[ f64::is_nan ](x: f64) -> (r: bool) ensures r == (fv(x) is NaN);
pub assume_specification[ f64::is_finite ](x: f64) -> (r: bool) ensures r == (fv(x) is Fin);
pub assume_specification[ f64::is_infinite ](x: f64) -> (r: bool) ensures r == (fv(x) is PosInf || fv(x) is NegInf);
pub assume_specification[ f64::is_sign_positive ](x: f64) -> (r: bool)
    ensures fv(x) is PosInf ==> r, fv(x) is NegInf ==> !r, (fv(x) is Fin && fv(x)->Fin_0 > 0real) ==> r, (fv(x) is Fin && fv(x)->Fin_0 < 0real) ==> !r;
pub assume_specification[ f64::trunc ](x: f64) -> (r: f64) ensures fv(r) == fv_map(fv(x), |v: real| real_trunc(v));
pub assume_specification[ f64::floor ](x: f64) -> (r: f64) ensures fv(r) == fv_map(fv(x), |v: real| v.floor());
pub assume_specification[ f64::ceil ](x: f64) -> (r: f64) ensures fv(r) == fv_map(fv(x), |v: real| real_ceil(v));
pub assume_specification[ f64::round ](x: f64) -> (r: f64) ensures fv(r) == fv_map(fv(x), |v: real| real_round(v));
pub assume_specification[ f64::abs ](x: f64) -> (r: f64) ensures r == f_abs(x);
pub assume_specification[ f64::to_bits ](x: f64) -> (r: u64) ensures r == f_bits(x);
// IEEE-754 binary64 encodings of the infinities
pub broadcast axiom fn f_bits_inf(x: f64) ensures fv(x) is PosInf ==> #[trigger] f_bits(x) == 0x7FF0000000000000u64, fv(x) is NegInf ==> f_bits(x) == 0xFFF0000000000000u64;
pub assume_specification[ f64::div_euclid ](x: f64, y: f64) -> (r: f64) ensures r == f_div_euclid(x, y);
pub assume_specification[ f64::rem_euclid ](x: f64, y: f64) -> (r: f64) ensures r == f_rem_euclid(x, y);
pub assume_specification[ f64::powi ](x: f64, n: i32) -> (r: f64) ensures r == f_powi(x, n);
pub assume_specification[ f64::powf ](x: f64, y: f64) -> (r: f64) ensures r == f_powf(x, y);
pub assume_specification[ f64::sqrt ](x: f64) -> (r: f64) ensures r == f_sqrt(x);

// num::bigint::ToBigInt for f64: truncation toward zero of a finite float, None for NaN / infinities
pub trait ToBigInt { fn to_bigint(&self) -> Option<BigInt>; }
impl ToBigInt for f64 {
    #[verifier::external_body] fn to_bigint(&self) -> (r: Option<BigInt>)
        ensures (fv(*self) is Fin) ==> (r is Some && r->Some_0@ == real_trunc(fv(*self)->Fin_0)),
                !(fv(*self) is Fin) ==> r is None,
    { unimplemented!() }
}

// std items around Option / Result used with floats
// (Option::unwrap_or_else has a vstd specification)
// (Result::expect has a vstd specification)

} // verus!
