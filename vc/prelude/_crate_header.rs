// crate header of every bundle
#![feature(allocator_api)]
#![allow(unused_imports, unused_variables, dead_code, unused_macros, non_snake_case, unused_mut, unreachable_code, unused_parens)]
use vstd::prelude::*;
use vstd::std_specs::cmp::*;
use vstd::std_specs::ops::*;
use vstd::std_specs::iter::IteratorSpec;
use std::cmp::Ordering;
use std::ops::{Add, BitAnd, BitOr, BitXor, Div, Mul, Neg, Not, Rem, Shl, Shr, Sub};
use std::ops::{AddAssign, DivAssign, MulAssign, SubAssign};
use std::rc::Rc;
use std::mem;
use vstd::seq::Seq as VSeq;
