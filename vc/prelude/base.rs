// ===== TRUSTED PRELUDE (base) =====
// Everything in this file is an ASSUMPTION: stand-ins for items of /repo that the extracted
// functions use but never inspect, and for std / dependency items. Listed in every evidence file.
use vstd::prelude::*;
use vstd::std_specs::cmp::*;
use vstd::std_specs::ops::*;
use std::cmp::Ordering;
use std::ops::{Add, BitAnd, BitOr, BitXor, Div, Mul, Neg, Not, Rem, Shl, Shr, Sub};
use std::ops::{AddAssign, DivAssign, MulAssign, SubAssign};
use std::rc::Rc;
use std::mem;

// rule 3.2-3: the macro *invocations* in extracted code are untouched; these definitions shadow std's.
// format!/write! arguments are Display calls without effect on the value that is returned.
macro_rules! format { ($($t:tt)*) => { vformat() } }
// every reachable panic site is a proof obligation (`requires false`)
macro_rules! panic { ($($t:tt)*) => { vpanic() } }
macro_rules! todo { ($($t:tt)*) => { vpanic() } }
macro_rules! unreachable { ($($t:tt)*) => { vpanic() } }

verus! {

#[verifier::external_body]
pub fn vformat() -> (r: String) { unimplemented!() }

pub fn vpanic() -> !
    requires false,
{
    loop
        invariant false,
        decreases 0int,
    {}
}

// ---- errors: constructors are opaque; only the error *class* is visible to contracts ----
#[verifier::external_body]
#[verifier::accept_recursive_types]
pub struct NErr { _p: u8 }
pub type NRes<T> = Result<T, NErr>;

pub enum ErrClass { Throw, Argument, Index, Key, Type, Value, Other }
pub uninterp spec fn err_class(e: NErr) -> ErrClass;

impl NErr {
    #[verifier::external_body]
    pub fn throw(s: String) -> (r: NErr) ensures err_class(r) == ErrClass::Throw { unimplemented!() }
    #[verifier::external_body]
    pub fn argument_error(s: String) -> (r: NErr) ensures err_class(r) == ErrClass::Argument { unimplemented!() }
    #[verifier::external_body]
    pub fn index_error(s: String) -> (r: NErr) ensures err_class(r) == ErrClass::Index { unimplemented!() }
    #[verifier::external_body]
    pub fn key_error(s: String) -> (r: NErr) ensures err_class(r) == ErrClass::Key { unimplemented!() }
    #[verifier::external_body]
    pub fn type_error(s: String) -> (r: NErr) ensures err_class(r) == ErrClass::Type { unimplemented!() }
    #[verifier::external_body]
    pub fn value_error(s: String) -> (r: NErr) ensures err_class(r) == ErrClass::Value { unimplemented!() }
}

} // verus!
verus! {
// ---- std items used by the extracted code (assumed specs; these are std's documented behaviour) ----
pub assume_specification<T, U, F: FnOnce(T) -> U>[ Option::<T>::map_or ](o: Option<T>, d: U, f: F) -> (r: U)
    requires o is Some ==> f.requires((o->Some_0,)),
    ensures o is None ==> r == d, o is Some ==> f.ensures((o->Some_0,), r);
pub assume_specification<T: Default>[ std::mem::take ](x: &mut T) -> (r: T) ensures r == *old(x), call_ensures(T::default, (), *final(x));
// core's reflexive `impl<T> From<T> for T`
pub assume_specification<T>[ <T as From<T>>::from ](t: T) -> (r: T) ensures r == t;
pub assume_specification<T: Clone>[ <[T]>::to_vec ](s: &[T]) -> (r: Vec<T>)
    ensures r@.len() == s@.len(), forall|i: int| 0 <= i < s@.len() ==> cloned::<T>(s@[i], #[trigger] r@[i]);
// std: reverses the order of elements in the slice, in place
pub assume_specification<T>[ <[T]>::reverse ](s: &mut [T]) ensures final(s)@ == old(s)@.reverse();
// the UTF-8 bytes of a string (an uninterpreted function of the string; Rust caps every allocation at isize::MAX bytes)
pub uninterp spec fn str_bytes(s: String) -> VSeq<u8>;
pub assume_specification[ String::as_bytes ](s: &String) -> (r: &[u8]) ensures r@ == str_bytes(*s), r@.len() <= isize::MAX;
pub assume_specification<T: ?Sized, A: std::alloc::Allocator>[ <Box<T, A> as AsRef<T>>::as_ref ](b: &Box<T, A>) -> (r: &T) ensures r == &**b;
// panics if rhs == 0 or on MIN % -1 (std docs); the result is the non-negative remainder
pub assume_specification[ isize::rem_euclid ](x: isize, rhs: isize) -> (r: isize)
    requires rhs != 0, !(x == isize::MIN && rhs == -1)
    ensures r as int == (x as int) % (rhs as int);
pub assume_specification[ isize::unsigned_abs ](x: isize) -> (r: usize) ensures r as int == (if x < 0 { -(x as int) } else { x as int });
pub assume_specification[ i64::unsigned_abs ](x: i64) -> (r: u64) ensures r as int == (if x < 0 { -(x as int) } else { x as int });
pub assume_specification[ i64::checked_abs ](x: i64) -> (r: Option<i64>)
    ensures r == (if x == i64::MIN { None::<i64> } else if x < 0 { Some((-x) as i64) } else { Some(x) });
pub assume_specification[ i64::signum ](x: i64) -> (r: i64)
    ensures r == (if x < 0 { -1i64 } else if x == 0 { 0i64 } else { 1i64 });
} // verus!
verus! {
// ---- machine-integer methods vstd does not specify (assumed: std's documented behaviour; debug-build panics are preconditions) ----
pub assume_specification[ i64::abs ](x: i64) -> (r: i64) requires x != i64::MIN ensures r as int == (if x < 0 { -(x as int) } else { x as int });
pub assume_specification[ i64::checked_neg ](x: i64) -> (r: Option<i64>) ensures r == (if x == i64::MIN { None::<i64> } else { Some((-x) as i64) });
pub assume_specification[ i64::wrapping_neg ](x: i64) -> (r: i64) ensures r == (if x == i64::MIN { i64::MIN } else { (-x) as i64 });
pub assume_specification[ i64::is_negative ](x: i64) -> (r: bool) ensures r == (x < 0);
pub assume_specification[ i64::is_positive ](x: i64) -> (r: bool) ensures r == (x > 0);
pub assume_specification[ i64::div_euclid ](x: i64, rhs: i64) -> (r: i64)
    requires rhs != 0, !(x == i64::MIN && rhs == -1)
    ensures r as int == (x as int) / (rhs as int);
pub assume_specification[ i64::saturating_add ](x: i64, y: i64) -> (r: i64)
    ensures r as int == (if x + y > i64::MAX { i64::MAX as int } else if x + y < i64::MIN { i64::MIN as int } else { x + y });
pub assume_specification[ i64::saturating_sub ](x: i64, y: i64) -> (r: i64)
    ensures r as int == (if x - y > i64::MAX { i64::MAX as int } else if x - y < i64::MIN { i64::MIN as int } else { x - y });
pub assume_specification[ i64::saturating_mul ](x: i64, y: i64) -> (r: i64)
    ensures r as int == (if x * y > i64::MAX { i64::MAX as int } else if x * y < i64::MIN { i64::MIN as int } else { x * y });
pub assume_specification[ i64::abs_diff ](x: i64, y: i64) -> (r: u64) ensures r as int == (if x >= y { x - y } else { y - x });
pub assume_specification[ i64::checked_shl ](x: i64, s: u32) -> (r: Option<i64>) ensures (s >= i64::BITS) == (r is None), s < i64::BITS ==> r == Some(x << s);
pub assume_specification[ i64::checked_shr ](x: i64, s: u32) -> (r: Option<i64>) ensures (s >= i64::BITS) == (r is None), s < i64::BITS ==> r == Some(x >> s);
pub assume_specification[ isize::abs ](x: isize) -> (r: isize) requires x != isize::MIN ensures r as int == (if x < 0 { -(x as int) } else { x as int });
pub assume_specification[ isize::checked_neg ](x: isize) -> (r: Option<isize>) ensures r == (if x == isize::MIN { None::<isize> } else { Some((-x) as isize) });
pub assume_specification[ isize::wrapping_neg ](x: isize) -> (r: isize) ensures r == (if x == isize::MIN { isize::MIN } else { (-x) as isize });
pub assume_specification[ isize::is_negative ](x: isize) -> (r: bool) ensures r == (x < 0);
pub assume_specification[ isize::is_positive ](x: isize) -> (r: bool) ensures r == (x > 0);
pub assume_specification[ isize::div_euclid ](x: isize, rhs: isize) -> (r: isize)
    requires rhs != 0, !(x == isize::MIN && rhs == -1)
    ensures r as int == (x as int) / (rhs as int);
pub assume_specification[ isize::saturating_add ](x: isize, y: isize) -> (r: isize)
    ensures r as int == (if x + y > isize::MAX { isize::MAX as int } else if x + y < isize::MIN { isize::MIN as int } else { x + y });
pub assume_specification[ isize::saturating_sub ](x: isize, y: isize) -> (r: isize)
    ensures r as int == (if x - y > isize::MAX { isize::MAX as int } else if x - y < isize::MIN { isize::MIN as int } else { x - y });
pub assume_specification[ isize::saturating_mul ](x: isize, y: isize) -> (r: isize)
    ensures r as int == (if x * y > isize::MAX { isize::MAX as int } else if x * y < isize::MIN { isize::MIN as int } else { x * y });
pub assume_specification[ isize::abs_diff ](x: isize, y: isize) -> (r: usize) ensures r as int == (if x >= y { x - y } else { y - x });
pub assume_specification[ isize::checked_shl ](x: isize, s: u32) -> (r: Option<isize>) ensures (s >= isize::BITS) == (r is None), s < isize::BITS ==> r == Some(x << s);
pub assume_specification[ isize::checked_shr ](x: isize, s: u32) -> (r: Option<isize>) ensures (s >= isize::BITS) == (r is None), s < isize::BITS ==> r == Some(x >> s);
pub assume_specification[ i64::rem_euclid ](x: i64, rhs: i64) -> (r: i64)
    requires rhs != 0, !(x == i64::MIN && rhs == -1)
    ensures r as int == (x as int) % (rhs as int);
pub assume_specification[ usize::abs_diff ](x: usize, y: usize) -> (r: usize) ensures r as int == (if x >= y { x - y } else { y - x });
} // verus!
verus! {
pub open spec fn ord_reverse(o: Ordering) -> Ordering { match o { Ordering::Less => Ordering::Greater, Ordering::Equal => Ordering::Equal, Ordering::Greater => Ordering::Less } }
pub open spec fn ord_then(o: Ordering, p: Ordering) -> Ordering { match o { Ordering::Equal => p, _ => o } }
pub assume_specification[ Ordering::reverse ](o: Ordering) -> (r: Ordering) ensures r == ord_reverse(o);
pub assume_specification[ Ordering::then ](o: Ordering, p: Ordering) -> (r: Ordering) ensures r == ord_then(o, p);
} // verus!
verus! {
// bool's Ord (false < true): vstd leaves OrdSpec for bool open
pub open spec fn bool_cmp(a: bool, b: bool) -> Ordering { if a == b { Ordering::Equal } else if !a { Ordering::Less } else { Ordering::Greater } }
pub broadcast axiom fn bool_obeys_cmp() ensures #[trigger] <bool as vstd::std_specs::cmp::OrdSpec>::obeys_cmp_spec();
pub broadcast axiom fn bool_cmp_spec(a: bool, b: bool) ensures #[trigger] <bool as vstd::std_specs::cmp::OrdSpec>::cmp_spec(&a, &b) == bool_cmp(a, b);
pub broadcast group bool_ord { bool_obeys_cmp, bool_cmp_spec }
} // verus!
