// ===== TRUSTED PRELUDE (opaque) =====
// Payload types of the interpreter's enums that the extracted functions never inspect (rule 3.2-4). If an extracted body
// does inspect one, the bundle does not compile and the check exits 2 (undecided).
verus! {
#[verifier::external_body] #[verifier::accept_recursive_types] pub struct BuiltinBox { _p: u8 }   // dyn Builtin
#[verifier::external_body] #[verifier::accept_recursive_types] pub struct StreamBox { _p: u8 }    // dyn Stream
#[verifier::external_body] #[verifier::accept_recursive_types] pub struct Closure { _p: u8 }
#[verifier::external_body] #[verifier::accept_recursive_types] pub struct LocExpr { _p: u8 }
#[verifier::external_body] #[verifier::accept_recursive_types] pub struct DictMap { _p: u8 }      // HashMap<ObjKey, Obj>
#[verifier::external_body] #[verifier::accept_recursive_types] pub struct MemoCell { _p: u8 }     // RefCell<HashMap<Vec<ObjKey>, Obj>>
#[verifier::external_body] #[verifier::accept_recursive_types] pub struct REnv { _p: u8 }         // Rc<RefCell<Env>>
} // verus!
