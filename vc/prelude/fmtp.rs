// ===== TRUSTED PRELUDE (fmtp): std::fmt as a ghost output log =====
// A Formatter is modelled by the sequence of characters written so far. Assumed behaviour of the dependencies:
//  * i64: Display writes the sign-magnitude decimal; LowerHex/UpperHex/Binary/Octal write the sign-magnitude digits for
//    n >= 0 and the 64-bit TWO'S-COMPLEMENT pattern for n < 0 (std behaviour)
//  * BigInt: every radix writes sign-magnitude ("-ff")
// reexport: fmt
pub mod fmt {
    use vstd::prelude::*;
    use super::*;
    verus! {
    #[verifier::external_body]
    pub struct Formatter { _p: u8 }
    impl Formatter { pub uninterp spec fn out(&self) -> VSeq<char>; }
    pub struct Error {}
    pub type Result = core::result::Result<(), Error>;
    pub trait Display { fn fmt(&self, f: &mut Formatter) -> Result; }
    pub trait LowerHex { fn fmt(&self, f: &mut Formatter) -> Result; }
    pub trait UpperHex { fn fmt(&self, f: &mut Formatter) -> Result; }
    pub trait Binary { fn fmt(&self, f: &mut Formatter) -> Result; }
    pub trait Octal { fn fmt(&self, f: &mut Formatter) -> Result; }
    pub trait LowerExp { fn fmt(&self, f: &mut Formatter) -> Result; }
    pub trait UpperExp { fn fmt(&self, f: &mut Formatter) -> Result; }
    }
}
verus! {
pub enum Radix { Dec, LowerHex, UpperHex, Bin, Oct }
// positional notation with a leading '-' for negative values
pub uninterp spec fn render_sm(radix: Radix, v: int) -> VSeq<char>;
// two's complement 64-bit pattern of a negative machine word
pub uninterp spec fn render_tc64(radix: Radix, v: int) -> VSeq<char>;
// the two renderings of a negative number differ (e.g. "-ff" vs "ffffffffffffff01")
pub broadcast axiom fn render_tc64_differs(radix: Radix, v: int) requires v < 0, !(radix is Dec) ensures #[trigger] render_tc64(radix, v) != render_sm(radix, v);
pub open spec fn i64_render(radix: Radix, n: i64) -> VSeq<char> {
    if radix is Dec || n >= 0 { render_sm(radix, n as int) } else { render_tc64(radix, n as int) }
}
pub uninterp spec fn other_render<T>(radix: Radix, exp: bool, v: T) -> VSeq<char>;
} // verus!
