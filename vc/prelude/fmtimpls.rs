// ===== TRUSTED PRELUDE (fmtimpls): assumed fmt behaviour of i64 / BigInt / BigRational / f64 / Complex64 — GENERATED =====
verus! {
impl fmt::Display for i64 { #[verifier::external_body] fn fmt(&self, f: &mut fmt::Formatter) -> (r: fmt::Result) ensures r is Ok, final(f).out() == old(f).out() + i64_render(Radix::Dec, *self) { unimplemented!() } }
impl fmt::Display for BigInt { #[verifier::external_body] fn fmt(&self, f: &mut fmt::Formatter) -> (r: fmt::Result) ensures r is Ok, final(f).out() == old(f).out() + render_sm(Radix::Dec, self@) { unimplemented!() } }
impl fmt::Display for BigRational { #[verifier::external_body] fn fmt(&self, f: &mut fmt::Formatter) -> (r: fmt::Result) ensures r is Ok, final(f).out() == old(f).out() + other_render(Radix::Dec, false, self@) { unimplemented!() } }
impl fmt::LowerHex for i64 { #[verifier::external_body] fn fmt(&self, f: &mut fmt::Formatter) -> (r: fmt::Result) ensures r is Ok, final(f).out() == old(f).out() + i64_render(Radix::LowerHex, *self) { unimplemented!() } }
impl fmt::LowerHex for BigInt { #[verifier::external_body] fn fmt(&self, f: &mut fmt::Formatter) -> (r: fmt::Result) ensures r is Ok, final(f).out() == old(f).out() + render_sm(Radix::LowerHex, self@) { unimplemented!() } }
impl fmt::LowerHex for BigRational { #[verifier::external_body] fn fmt(&self, f: &mut fmt::Formatter) -> (r: fmt::Result) ensures r is Ok, final(f).out() == old(f).out() + other_render(Radix::LowerHex, false, self@) { unimplemented!() } }
impl fmt::UpperHex for i64 { #[verifier::external_body] fn fmt(&self, f: &mut fmt::Formatter) -> (r: fmt::Result) ensures r is Ok, final(f).out() == old(f).out() + i64_render(Radix::UpperHex, *self) { unimplemented!() } }
impl fmt::UpperHex for BigInt { #[verifier::external_body] fn fmt(&self, f: &mut fmt::Formatter) -> (r: fmt::Result) ensures r is Ok, final(f).out() == old(f).out() + render_sm(Radix::UpperHex, self@) { unimplemented!() } }
impl fmt::UpperHex for BigRational { #[verifier::external_body] fn fmt(&self, f: &mut fmt::Formatter) -> (r: fmt::Result) ensures r is Ok, final(f).out() == old(f).out() + other_render(Radix::UpperHex, false, self@) { unimplemented!() } }
impl fmt::Binary for i64 { #[verifier::external_body] fn fmt(&self, f: &mut fmt::Formatter) -> (r: fmt::Result) ensures r is Ok, final(f).out() == old(f).out() + i64_render(Radix::Bin, *self) { unimplemented!() } }
impl fmt::Binary for BigInt { #[verifier::external_body] fn fmt(&self, f: &mut fmt::Formatter) -> (r: fmt::Result) ensures r is Ok, final(f).out() == old(f).out() + render_sm(Radix::Bin, self@) { unimplemented!() } }
impl fmt::Binary for BigRational { #[verifier::external_body] fn fmt(&self, f: &mut fmt::Formatter) -> (r: fmt::Result) ensures r is Ok, final(f).out() == old(f).out() + other_render(Radix::Bin, false, self@) { unimplemented!() } }
impl fmt::Octal for i64 { #[verifier::external_body] fn fmt(&self, f: &mut fmt::Formatter) -> (r: fmt::Result) ensures r is Ok, final(f).out() == old(f).out() + i64_render(Radix::Oct, *self) { unimplemented!() } }
impl fmt::Octal for BigInt { #[verifier::external_body] fn fmt(&self, f: &mut fmt::Formatter) -> (r: fmt::Result) ensures r is Ok, final(f).out() == old(f).out() + render_sm(Radix::Oct, self@) { unimplemented!() } }
impl fmt::Octal for BigRational { #[verifier::external_body] fn fmt(&self, f: &mut fmt::Formatter) -> (r: fmt::Result) ensures r is Ok, final(f).out() == old(f).out() + other_render(Radix::Oct, false, self@) { unimplemented!() } }
impl fmt::Display for f64 { #[verifier::external_body] fn fmt(&self, f: &mut fmt::Formatter) -> (r: fmt::Result) ensures r is Ok { unimplemented!() } }
impl fmt::Display for Complex64 { #[verifier::external_body] fn fmt(&self, f: &mut fmt::Formatter) -> (r: fmt::Result) ensures r is Ok { unimplemented!() } }
impl fmt::LowerExp for f64 { #[verifier::external_body] fn fmt(&self, f: &mut fmt::Formatter) -> (r: fmt::Result) ensures r is Ok { unimplemented!() } }
impl fmt::LowerExp for Complex64 { #[verifier::external_body] fn fmt(&self, f: &mut fmt::Formatter) -> (r: fmt::Result) ensures r is Ok { unimplemented!() } }
impl fmt::UpperExp for f64 { #[verifier::external_body] fn fmt(&self, f: &mut fmt::Formatter) -> (r: fmt::Result) ensures r is Ok { unimplemented!() } }
impl fmt::UpperExp for Complex64 { #[verifier::external_body] fn fmt(&self, f: &mut fmt::Formatter) -> (r: fmt::Result) ensures r is Ok { unimplemented!() } }
} // verus!
