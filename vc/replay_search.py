"""Search for a concrete failing input against the REAL code.

Two uses, both labelled in the evidence:
  * replay: after a verifier reported a failed obligation, find an input on which the real interpreter (built from the tree
    under test) disagrees with the property's reference semantics;
  * bounded stand-in: when the proof of a property is UNDECIDED (lost anchor, construct outside Verus), run the same bounded
    grid; it can only ever turn into an alarm through a concrete failing input of the real code, and it never counts as proof.

The reference semantics are computed here in Python with exact integers / fractions (Python IS the reference for index and
slice semantics). Bounds are stated per suite.
"""
import itertools
import json
import os
import shutil
import subprocess
import tempfile
from fractions import Fraction

HERE = os.path.dirname(os.path.abspath(__file__))
VERIF = os.path.dirname(HERE)


# ----------------------------------------------------------------------------------------------- running the real code
def forget_crate(target_dir):
    """cargo keys the freshness of a path crate on recorded file paths + mtimes; two scratch copies of the crate (rsync keeps
    mtimes) can therefore be mistaken for one another. Dropping the crate's own fingerprints forces a rebuild of the crate
    (dependencies stay cached)."""
    import glob
    for fp in glob.glob(os.path.join(target_dir, '**', '.fingerprint', 'noulith-*'), recursive=True):
        shutil.rmtree(fp, ignore_errors=True)
    # the toolchain Kani ships uses cargo's newer layout: <profile>/build/<crate>/<hash>/{fingerprint,out}
    for fp in glob.glob(os.path.join(target_dir, '**', 'build', 'noulith'), recursive=True):
        shutil.rmtree(fp, ignore_errors=True)
    for fp in glob.glob(os.path.join(target_dir, '**', 'incremental', 'noulith-*'), recursive=True):
        shutil.rmtree(fp, ignore_errors=True)


def build(repo, log=lambda *a: None):
    """debug build of a scratch copy of `repo`; returns (binary path, cleanup fn)"""
    tmp = tempfile.mkdtemp(prefix='noulith-replay.', dir=os.environ.get('VERIF_SCRATCH', '/var/tmp'))
    subprocess.check_call(['rsync', '-a', '--exclude', '/target', '--exclude', '/.git', repo + '/', tmp + '/'])
    tdir = os.path.join(VERIF, '.cache', 'replay-target')
    env = dict(os.environ, CARGO_NET_OFFLINE='true', CARGO_TARGET_DIR=tdir)
    env.pop('RUSTUP_TOOLCHAIN', None)
    # build + copy under a lock: concurrent checks of different trees share the target dir (dependency cache)
    import fcntl
    os.makedirs(tdir, exist_ok=True)
    with open(os.path.join(tdir, '.verif-lock'), 'w') as lk:
        fcntl.flock(lk, fcntl.LOCK_EX)
        forget_crate(tdir)
        r = subprocess.run(['cargo', 'build', '--offline'], cwd=tmp, env=env, capture_output=True, text=True)
        if r.returncode != 0:
            shutil.rmtree(tmp, ignore_errors=True)
            raise RuntimeError('real-code build failed: ' + r.stderr[-300:])
        binp = os.path.join(tmp, 'noulith-under-test')
        shutil.copy2(os.path.join(tdir, 'debug', 'noulith'), binp)
    return binp, (lambda: shutil.rmtree(tmp, ignore_errors=True))


def run_cases(binp, cases, setup=''):
    """cases: list of (id, expr). Returns dict id -> output string, 'ERR' for a caught error, 'PANIC' if the interpreter
    process died while evaluating the case."""
    out = {}
    todo = list(cases)
    while todo:
        prog = [setup]
        for cid, expr in todo:
            prog.append('print("@@%s@@" $ (try str(%s) catch e -> "ERR"));' % (cid, expr))
        with tempfile.NamedTemporaryFile('w', suffix='.noul', delete=False) as f:
            f.write('\n'.join(prog) + '\n')
            path = f.name
        timed_out = False
        pr = subprocess.Popen([binp, path], stdout=subprocess.PIPE, stderr=subprocess.PIPE, text=True)
        try:
            so, se = pr.communicate(timeout=int(os.environ.get('VERIF_CASE_TIMEOUT', '120')))
        except subprocess.TimeoutExpired:
            pr.kill()
            so, se = pr.communicate()
            timed_out = True
        os.unlink(path)
        if not so.strip() and 'PARSE ERROR' in (se or '')[:400]:
            # the whole program is parsed before anything runs: one unparseable case would make every case look like a crash.
            # That is a problem of the grid (or of the parser under test), not a crash of the evaluated cases: refuse to judge.
            raise RuntimeError('grid program does not parse: ' + ' '.join((se or '').split())[:300])

        class R:
            stdout = so
        r = R()
        seen = 0
        for line in r.stdout.splitlines():
            if line.startswith('@@') and '@@' in line[2:]:
                cid, _, val = line[2:].partition('@@')
                out[cid] = val
                seen += 1
        if seen < len(todo):
            # the process died on case number `seen`
            out[todo[seen][0]] = 'TIMEOUT' if timed_out else 'PANIC'
            todo = todo[seen + 1:]
        else:
            todo = []
    return out


# ----------------------------------------------------------------------------------------------- value pools
INTS = [0, 1, -1, 2, -2, 3, -3, 7, -7, 10, 255, -255, 2**31, -2**31, 2**32 + 1, 2**62, -2**62, 2**63 - 1, 2**63, -2**63, -2**63 - 1,
        2**64, -2**64 + 3, 10**30, -10**30 + 7]
SMALL_INTS = [0, 1, -1, 2, -2, 3, -3, 7, -7, 10]


def lit(n):
    return str(n) if n >= 0 else '(0-%d)' % (-n)


def big_repr(n):
    """the same integer value held in the big-integer representation (arithmetic on big operands is never normalised)"""
    return '(%s + 2^70 - 2^70)' % lit(n)


def int_exprs(vals):
    for v in vals:
        if v == -2**63:
            # the literal 2^63 is already a big integer; i64::MIN as a machine word only arises from arithmetic
            yield v, '((0-9223372036854775807) - 1)', 's'
        else:
            yield v, lit(v), 's'
        yield v, big_repr(v), 'b'


def frac_lit(q):
    return '(%s/%s)' % (lit(q.numerator), lit(q.denominator)) if q.denominator != 1 else '(%s/1)' % lit(q.numerator)


def show_frac(q):
    return str(q.numerator) if q.denominator == 1 else '%d/%d' % (q.numerator, q.denominator)


def tdiv(a, b):
    q = abs(a) // abs(b)
    return q if (a >= 0) == (b >= 0) else -q


def trem(a, b):
    return a - b * tdiv(a, b)


# ----------------------------------------------------------------------------------------------- suites
def suite_C06():
    """bound: 25 integer values x 2 representations, all pairs, 14 operators"""
    cases = []
    ops = {
        '+': lambda a, b: a + b, '-': lambda a, b: a - b, '*': lambda a, b: a * b,
        '//': lambda a, b: a // b if b else 'ERR', '%%': lambda a, b: a % b if b else 'ERR',
        '%': lambda a, b: trem(a, b) if b else 'ERR',
        '/!': lambda a, b: ('ERR' if b == 0 or a % b else a // b),
        'gcd': None, '&': lambda a, b: a & b, '|': lambda a, b: a | b,
        '<': lambda a, b: int(a < b), '==': lambda a, b: int(a == b), '<=>': lambda a, b: (a > b) - (a < b), '>=': lambda a, b: int(a >= b),
    }
    import math
    ops['gcd'] = lambda a, b: math.gcd(a, b)
    vals = list(int_exprs(INTS))
    k = 0
    for (a, ea, ra), (b, eb, rb) in itertools.product(vals, vals):
        for op, f in ops.items():
            if ra == 's' and rb == 's' and abs(a) < 2**31 and abs(b) < 2**31 and op in ('&', '|', 'gcd', '>=', '<=>'):
                continue  # thin out the plain small x small block
            exp = f(a, b)
            cases.append(('i%d' % k, '%s %s %s' % (ea, op, eb), str(exp), dict(a=a, b=b, op=op, repr_a=ra, repr_b=rb)))
            k += 1
    for (a, ea, ra) in vals:
        for name, f in [('abs', abs), ('signum', lambda x: (x > 0) - (x < 0)), ('even', lambda x: int(x % 2 == 0)), ('odd', lambda x: int(x % 2 == 1))]:
            cases.append(('u%d' % k, '%s(%s)' % (name, ea), str(f(a)), dict(a=a, op=name, repr_a=ra)))
            k += 1
        cases.append(('u%d' % k, '~%s' % ea, str(~a), dict(a=a, op='~', repr_a=ra)))
        k += 1
        cases.append(('u%d' % k, '0 - %s' % ea, str(-a), dict(a=a, op='neg', repr_a=ra)))
        k += 1
        for s in (0, 1, 3, 63, 64, 65):
            cases.append(('s%d' % k, '%s << %d' % (ea, s), str(a << s), dict(a=a, op='<<', s=s, repr_a=ra)))
            k += 1
            cases.append(('s%d' % k, '%s >> %d' % (ea, s), str(a >> s), dict(a=a, op='>>', s=s, repr_a=ra)))
            k += 1
    def isprime(n):
        if n < 2:
            return False
        d = 2
        while d * d <= n:
            if n % d == 0:
                return False
            d += 1
        return True

    def factor(n):
        out = []
        if n < 0:
            out.append([-1, 1])
            n = -n
        d = 2
        while n > 1 and d * d <= n:
            m = 0
            while n % d == 0:
                n //= d
                m += 1
            if m:
                out.append([d, m])
            d += 1
        if n > 1:
            out.append([n, 1])
        return out
    # strong pseudoprimes (bases 2; 2,3; 2,3,5; 2,3,5,7) and Carmichael numbers: where a probabilistic shortcut would differ from the definition
    PSEUDO = [2047, 3277, 4033, 4681, 8321, 1373653, 25326001, 3215031751, 561, 1105, 1729, 2465, 2821, 6601, 8911, 41041, 825265, 321197185, 2**32 - 5, 2**32 + 15, 4294967297]
    for n in list(range(-3, 130)) + [169, 221, 289, 323, 361, 7919, 7921, 10007, 2**31 - 1, (2**13 - 1) * (2**17 - 1), 1000003 * 1000003] + PSEUDO:
        for en, rn in [(lit(n), 's'), (big_repr(n), 'b')]:
            cases.append(('pr%d' % k, 'is_prime(%s)' % en, str(int(isprime(n))), dict(n=n, op='is_prime', repr=rn)))
            k += 1
        if n != 0 and abs(n) < 10**13:
            cases.append(('fa%d' % k, 'factorize(%s)' % lit(n), '[%s]' % ', '.join('[%d, %d]' % tuple(x) for x in factor(n)), dict(n=n, op='factorize')))
            k += 1
    for (a, ea, ra), e in itertools.product(list(int_exprs(SMALL_INTS)), [0, 1, 2, 3, 5, -1, -2]):
        if a == 0 and e < 0:
            continue
        exp = Fraction(a) ** e
        cases.append(('p%d' % k, '%s ^ %s' % (ea, lit(e)), show_frac(exp), dict(a=a, op='^', e=e, repr_a=ra)))
        k += 1
    return '', cases


FRACS = [Fraction(0), Fraction(1), Fraction(-1), Fraction(1, 2), Fraction(-1, 2), Fraction(7, 2), Fraction(-7, 2), Fraction(1, 3), Fraction(-2, 3),
         Fraction(4, 2), Fraction(10**20, 3), Fraction(3)]


def suite_C07():
    """bound: 12 exact values (ints and fractions incl. integral-valued ones), all pairs, 7 operators + rounding family"""
    import math
    cases = []
    k = 0
    pool = []
    for q in FRACS:
        pool.append((q, frac_lit(q), 'q'))           # rational level (a/b literal division)
        if q.denominator == 1:
            pool.append((q, lit(q.numerator), 'i'))  # int level
    ops = {
        '+': lambda a, b: a + b, '-': lambda a, b: a - b, '*': lambda a, b: a * b,
        '/': lambda a, b: (a / b) if b else None,
        '//': lambda a, b: Fraction(math.floor(a / b)) if b else 'ERR',
        '%%': lambda a, b: a - b * math.floor(a / b) if b else 'ERR',
        '%': lambda a, b: a - b * (math.floor(abs(a) / abs(b)) * (1 if (a >= 0) == (b >= 0) else -1)) if b else 'ERR',
    }
    for (a, ea, la), (b, eb, lb) in itertools.product(pool, pool):
        for op, f in ops.items():
            exp = f(a, b)
            if exp is None:
                continue  # x / 0: float infinity / NaN, value not claimed
            cases.append(('q%d' % k, '%s %s %s' % (ea, op, eb), exp if exp == 'ERR' else show_frac(exp), dict(a=str(a), b=str(b), op=op, level_a=la, level_b=lb)))
            k += 1
    for (a, ea, la) in pool:
        for name, f in [('floor', math.floor), ('ceil', math.ceil), ('numerator', lambda x: x.numerator), ('denominator', lambda x: x.denominator),
                        ('round', lambda x: math.floor(x + Fraction(1, 2)) if x >= 0 else -math.floor(-x + Fraction(1, 2)))]:
            cases.append(('r%d' % k, '%s(%s)' % (name, ea), str(f(a)), dict(a=str(a), op=name, level_a=la)))
            k += 1
    # the rounding family on floats: the exact integer, whatever the magnitude (floats next to 2^53, 2^63, 2^64 are integers already)
    fl = [0.5, 1.5, 2.5, -0.5, -1.5, -2.5, 2.9, -2.9, 0.0, 1e15 + 0.5, -1e15 - 0.5, 2.0**52 + 0.5, 2.0**53, 2.0**53 + 2, 2.0**62, 2.0**63, -2.0**63, 2.0**63 - 1024,
          -2.0**63 - 2048, 2.0**64, 1e30, -1e30, 1.7976931348623157e308]
    for x in fl:
        e = ('(0-%s)' % repr(-x)) if x < 0 else repr(x)
        if 'e' in e:
            e = ('(0-%d.0)' % int(-x)) if x < 0 else '%d.0' % int(x)
        rnd = math.floor(Fraction(x) + Fraction(1, 2)) if x >= 0 else -math.floor(-Fraction(x) + Fraction(1, 2))
        for name, v in [('floor', math.floor(x)), ('ceil', math.ceil(x)), ('round', rnd), ('int', int(x))]:
            cases.append(('rf%d' % k, '%s(%s)' % (name, e), str(v), dict(x=repr(x), op=name, what='rounding of a float is the exact integer')))
            k += 1
            if name != 'int':      # int(...) is the type conversion and is not applied element-wise
                cases.append(('rv%d' % k, 'list(%s(V(%s, 1)))' % (name, e), '[%s, 1]' % v, dict(x=repr(x), op=name, what='rounding of a float inside a vector')))
                k += 1
    for e, shown in [('(1.0/0.0)', 'inf'), ('(0-1.0/0.0)', '-inf'), ('(0.0/0.0)', 'NaN')]:
        for name in ['floor', 'ceil', 'round', 'int']:
            cases.append(('rn%d' % k, '%s(%s)' % (name, e), shown, dict(x=e, op=name, what='a non-finite float has no integer: it stays as it is')))
            k += 1
    # element-wise action on vectors with scalars broadcast on either side
    for op, f in ops.items():
        if op == '/':
            continue
        for a, bs in [(Fraction(7), [2, 3, 4]), (Fraction(-7), [2, -3, 5])]:
            sv = [f(a, Fraction(b)) for b in bs]
            vs = [f(Fraction(b), a) for b in bs]
            vv = [f(Fraction(b), Fraction(c)) for b, c in zip(bs, reversed(bs))]
            V = 'V(%s)' % ', '.join(lit(b) for b in bs)
            Vr = 'V(%s)' % ', '.join(lit(b) for b in reversed(bs))
            for expr, vals in [('%s %s %s' % (lit(int(a)), op, V), sv), ('%s %s %s' % (V, op, lit(int(a))), vs), ('%s %s %s' % (V, op, Vr), vv)]:
                cases.append(('v%d' % k, 'list(%s)' % expr, '[%s]' % ', '.join(show_frac(x) for x in vals), dict(expr=expr, what='vector broadcast')))
                k += 1
    cases.append(('v%d' % k, 'V(1,2,3) + V(1,2)', 'ERR', dict(what='vectors of different lengths are rejected')))
    k += 1
    # level of mixed results
    for ea, eb, ty in [('1', '(1/2)', 'rational'), ('(1/2)', '1.5', 'float'), ('1', '1.5', 'float'), ('1.5', '(1+2i)', 'complex'), ('(1/2)', '(1+2i)', 'complex'), ('2', '3', 'int')]:
        for op in ['+', '-', '*']:
            for x, y in [(ea, eb), (eb, ea)]:
                cases.append(('l%d' % k, '(%s %s %s) is %s' % (x, op, y, ty), '1', dict(a=x, b=y, op=op, what='level of the result is ' + ty)))
                k += 1
    return '', cases


def suite_C08():
    """bound: 26 real values of all levels (ints around 2^53 / 2^63, fractions next to floats, +-0.0, +-inf, NaN), all pairs"""
    vals = []
    for n in [0, 1, -1, 2, -2, 3, 2**53, 2**53 + 1, -2**53 - 1, 2**63 - 1, 2**63, 2**64 + 1]:
        vals.append((Fraction(n), lit(n)))
    vals.append((Fraction(-2**63), '((0-9223372036854775807) - 1)'))
    vals.append((Fraction(-2**63), '(0-2^63)'))
    vals.append((Fraction(-2**63), '(0-9223372036854775808.0)'))
    vals.append((Fraction(2**63 - 1), big_repr(2**63 - 1)))
    for q in [Fraction(1, 2), Fraction(-5, 2), Fraction(2**53 * 2 + 1, 2), Fraction(1, 3), Fraction(6, 3)]:
        vals.append((q, frac_lit(q)))
    for f, e in [(0.5, '0.5'), (-2.5, '(0-2.5)'), (2.0, '2.0'), (9007199254740992.0, '9007199254740992.0'), (9223372036854775808.0, '9223372036854775808.0'),
                 (-0.0, '(0-0.0)'), (1e300, '1e300')]:
        vals.append((Fraction(f), e))
    vals.append(('inf', '(1.0/0.0)'))
    vals.append(('-inf', '((0-1.0)/0.0)'))
    vals.append(('nan', '(0.0/0.0)'))

    def cmp(a, b):
        if a == 'nan' or b == 'nan':
            return None
        key = lambda x: (1, 0) if x == 'inf' else (-1, 0) if x == '-inf' else (0, x)
        ka, kb = key(a), key(b)
        return (ka > kb) - (ka < kb)
    cases = []
    k = 0
    for (a, ea), (b, eb) in itertools.product(vals, vals):
        c = cmp(a, b)
        cases.append(('e%d' % k, '%s == %s' % (ea, eb), str(int(c == 0)), dict(a=ea, b=eb, op='==')))
        k += 1
        cases.append(('c%d' % k, '%s < %s' % (ea, eb), 'ERR' if c is None else str(int(c < 0)), dict(a=ea, b=eb, op='<')))
        k += 1
        cases.append(('o%d' % k, '%s <=> %s' % (ea, eb), 'ERR' if c is None else str(c), dict(a=ea, b=eb, op='<=>')))
        k += 1
        if c is not None:
            cases.append(('m%d' % k, '(%s min %s) == %s' % (ea, eb, ea if c <= 0 else eb), '1', dict(a=ea, b=eb, op='min')))
            k += 1
            cases.append(('x%d' % k, '(%s max %s) == %s' % (ea, eb, ea if c >= 0 else eb), '1', dict(a=ea, b=eb, op='max')))
            k += 1
    return '', cases


def suite_C09():
    """bound: key-equal pairs across int / big-repr int / float / rational / complex / NaN, also nested in lists and vectors"""
    groups = [
        ['1', '1.0', '(2/2)', '(1+0i)', big_repr(1)],
        ['0', '0.0', '(0-0.0)', '(0/1)', big_repr(0)],
        ['(0-7)', '(0-7.0)', '((0-14)/2)', big_repr(-7)],
        ['(1/2)', '0.5', '(2/4)'],
        ['2^64', '2.0^64', '(2^65/2)'],
        ['(0.0/0.0)', '(0.0/0.0)'],
        ['(1+2i)', '(1.0+2.0i)'],
        ['2^63', '9223372036854775808.0'],
        # subnormal and boundary-exponent floats against the equal exact fractions
        ['5e-324', '(1/2^1074)'], ['1.1125369292536007e-308', '(1/2^1023)'], ['2.2250738585072014e-308', '(1/2^1022)'], ['1.5e-323', '(3/2^1074)'],
        ['2.0^(0-60)', '(1/2^60)'], ['2.0^1023', '2^1023'], ['(0-5e-324)', '((0-1)/2^1074)'],
    ]
    cases = []
    k = 0
    for g in groups:
        for a, b in itertools.product(g, g):
            cases.append(('k%d' % k, '{%s: "hit"}[%s]' % (a, b), 'hit', dict(stored=a, lookup=b)))
            k += 1
            cases.append(('n%d' % k, '{[%s, 5]: "hit"}[[%s, 5]]' % (a, b), 'hit', dict(stored='[%s, 5]' % a, lookup='[%s, 5]' % b)))
            k += 1
            cases.append(('s%d' % k, 'len(set([%s, %s]))' % (a, b), '1', dict(a=a, b=b, what='set')))
            k += 1
    for a, b in [('V((0.0/0.0), 1)', 'V((0.0/0.0), 1)'), ('[(0.0/0.0), 1]', '[(0.0/0.0), 1]'), ('V(1, 2)', 'V(1.0, (4/2))'), ('[[1], 2.0]', '[[1.0], 2]')]:
        cases.append(('w%d' % k, '{%s: "hit"}[%s]' % (a, b), 'hit', dict(stored=a, lookup=b)))
        k += 1
        cases.append(('u%d' % k, 'len(set([%s, %s]))' % (a, b), '1', dict(a=a, b=b, what='set')))
        k += 1
    dsetup = 'vda := {1: "one", 2: "two", 3: "three"}; vdb := {1: "ONE", 4: "FOUR"};\n'
    for expr, exp in [('(vda && vdb)[1]', 'one'), ('len(vda && vdb)', '1'), ('(vda && {1.0: 0})[1]', 'one'), ('len(vda || vdb)', '4'), ('len(vda -- vdb)', '2'),
                      ('2 in (vda -- vdb)', '1'), ('1 in (vda -- vdb)', '0'), ('len(vda -. 1)', '2'), ('len(vda -. 1.0)', '2'), ('len(vda -. (2/2))', '2'),
                      ('1 in (vda -. (1+0i))', '0'), ('len(vda |. 5)', '4'), ('len(vda |. 1.0)', '3'), ('vda[2/1]', 'two'), ('3.0 in vda', '1'),
                      ('(vda !? 7)', 'null'), ('(vda !? 2.0)', 'two'), ('len(keys(vda))', '3'), ('sort(keys(vda))', '[1, 2, 3]'), ('sort(values(vdb))', '["FOUR", "ONE"]'),
                      ('vda == {3: "three", 2.0: "two", (1/1): "one"}', '1'), ('frequencies([1, 1.0, 2/2, 2])[1]', '3'), ('len(unique([1, 1.0, 2/2, 2]))', '2'),
                      ('count_distinct([1, 1.0, 0.5, 1/2])', '2')]:
        cases.append(('do%d' % k, expr, exp, dict(expr=expr, what='dictionary operation')))
        k += 1
    for ga, gb in itertools.combinations(groups, 2):
        if ga[0] == '(0.0/0.0)' or gb[0] == '(0.0/0.0)':
            continue
        cases.append(('d%d' % k, 'len({%s: 1, %s: 2})' % (ga[0], gb[-1]), '2', dict(a=ga[0], b=gb[-1], what='distinct')))
        k += 1
    # what may be a key: functions, struct instances and streams are refused at every nesting depth (never a crash in the hasher);
    # streams at the top level are forced into lists
    for bad in ['len', '(\\x -> x)', 'int', 'vkfoo']:
        for shape in ['%s', '[%s]', '[1, [2, %s]]', '{1: %s}', '{1: [%s]}']:
            v = shape % bad
            cases.append(('hk%d' % k, '{%s: 1}' % v, 'ERR', dict(key=v, what='not a valid key')))
            k += 1
            cases.append(('hs%d' % k, 'len(set([%s]))' % v, 'ERR', dict(key=v, what='not a valid key (set)')))
            k += 1
            cases.append(('hi%d' % k, '%s in {1: 2}' % v, 'ERR', dict(key=v, what='not a valid key (in)')))
            k += 1
    for v in ['[1 til 3]', '[[1 til 3]]', '{1: (1 til 3)}']:
        cases.append(('hn%d' % k, '{%s: 1}' % v, 'ERR', dict(key=v, what='a stream nested inside a key is refused')))
        k += 1
    cases.append(('ht%d' % k, '{(1 til 3): "hit"}[[1, 2]]', 'hit', dict(key='1 til 3', what='a stream key is forced into a list')))
    k += 1
    for stored, lookup in [('[1, [2.0, "a"]]', '[1.0, [2, "a"]]'), ('[V(1, 2), [3]]', '[V(1.0, (4/2)), [(3/1)]]'), ('[bytes([1, 2]), null]', '[bytes([1, 2]), null]'),
                           ('[[], [[]], ""]', '[[], [[]], ""]'), ('{1: [2.0]}', '{1.0: [2]}')]:
        cases.append(('hq%d' % k, '{%s: "hit"}[%s]' % (stored, lookup), 'hit', dict(stored=stored, lookup=lookup, what='nested equal keys address the same entry')))
        k += 1
    for a, b in [('[1, 2]', '[2, 1]'), ('[1, [2]]', '[[1], 2]'), ('"12"', '[1, 2]'), ('bytes([1])', '[1]'), ('V(1)', '[1]'), ('[1]', '1'), ('[]', '""'), ('null', '[]')]:
        cases.append(('hd%d' % k, 'len({%s: 1, %s: 2})' % (a, b), '2', dict(a=a, b=b, what='unequal keys are distinct entries')))
        k += 1
    return dsetup + 'struct VkFoo(a);\nvkfoo := VkFoo(1);\n', cases


def suite_C10():
    """bound: list / string / vector / bytes of length 0..4, every index and slice bound in [-len-3, len+3] plus extremes"""
    cases = []
    k = 0
    for n in range(0, 5):
        py = list(range(10, 10 + n))
        kinds = [
            ('list', '[%s]' % ', '.join(map(str, py)), lambda x: str(x), lambda xs: '[%s]' % ', '.join(map(str, xs))),
            ('vector', 'vector([%s])' % ', '.join(map(str, py)), lambda x: str(x), None),
            ('bytes', 'bytes([%s])' % ', '.join(map(str, py)), lambda x: str(x), None),
            ('string', '"%s"' % ''.join(chr(97 + i) for i in range(n)), None, None),
        ]
        idxs = list(range(-n - 3, n + 4)) + [2**62, -2**62, 2**63 - 1, -2**63, 2**63, -2**63 - 1, 2**64]
        for kind, expr, showel, showlist in kinds:
            pys = py if kind != 'string' else [chr(97 + i) for i in range(n)]
            for i in idxs:
                try:
                    e = pys[i]
                    exp = str(e)
                except IndexError:
                    exp = 'ERR'
                cases.append(('x%d' % k, '(%s)[%s]' % (expr, lit(i)), exp, dict(kind=kind, len=n, index=i)))
                k += 1
            for lo, hi in itertools.product([None] + list(range(-n - 2, n + 3)) + [2**62, -2**62], repeat=2):
                sl = pys[lo:hi]
                if kind == 'list':
                    exp = '[%s]' % ', '.join(map(str, sl))
                elif kind == 'string':
                    exp = ''.join(sl)
                else:
                    exp = None
                sexpr = '(%s)[%s:%s]' % (expr, '' if lo is None else lit(lo), '' if hi is None else lit(hi))
                if exp is None:
                    cases.append(('l%d' % k, 'len(%s)' % sexpr, str(len(sl)), dict(kind=kind, len=n, lo=lo, hi=hi)))
                else:
                    cases.append(('s%d' % k, sexpr, exp, dict(kind=kind, len=n, lo=lo, hi=hi)))
                k += 1
        sexpr = 'stream([%s])' % ', '.join(map(str, py))
        for i in idxs:
            try:
                exp = str(py[i])
            except IndexError:
                exp = 'ERR'
            cases.append(('t%d' % k, '(%s)[%s]' % (sexpr, lit(i)), exp, dict(kind='stream', len=n, index=i)))
            k += 1
        for lo, hi in itertools.product([None, 0, 1, n, n + 2, -1, -n - 1, 2**62], repeat=2):
            sl = py[lo:hi]
            cases.append(('r%d' % k, 'list((%s)[%s:%s])' % (sexpr, '' if lo is None else lit(lo), '' if hi is None else lit(hi)), '[%s]' % ', '.join(map(str, sl)),
                          dict(kind='stream', len=n, lo=lo, hi=hi)))
            k += 1
        # the same integer held in the big-integer representation must index / slice identically (results of // %% ^ gcd stay big)
        lexpr = '[%s]' % ', '.join(map(str, py))
        for i in range(-n - 1, n + 2):
            try:
                exp = str(py[i])
            except IndexError:
                exp = 'ERR'
            cases.append(('bx%d' % k, '(%s)[%s]' % (lexpr, big_repr(i)), exp, dict(kind='list', len=n, index=i, repr='big')))
            k += 1
            for kind2, e2 in [('list', lexpr), ('stream', sexpr), ('string', '"%s"' % ''.join(chr(97 + j) for j in range(n)))]:
                base = py if kind2 != 'string' else [chr(97 + j) for j in range(n)]
                show = (lambda xs: '[%s]' % ', '.join(map(str, xs))) if kind2 != 'string' else (lambda xs: ''.join(xs))
                wrap = 'list(%s)' if kind2 == 'stream' else '%s'
                cases.append(('bl%d' % k, wrap % ('(%s)[%s:]' % (e2, big_repr(i))), show(base[i:]), dict(kind=kind2, len=n, lo=i, repr='big')))
                k += 1
                cases.append(('bh%d' % k, wrap % ('(%s)[:%s]' % (e2, big_repr(i))), show(base[:i]), dict(kind=kind2, len=n, hi=i, repr='big')))
                k += 1
        # streams that have already been consumed from the front: indices and slices are relative to what is left
        for c in range(0, n + 1):
            rest = py[c:]
            for how, cexpr in [('drop', '(%s drop %d)' % (sexpr, c)), ('slice', '(%s)[%d:]' % (sexpr, c))]:
                for i in list(range(-n - 3, n + 4)):
                    try:
                        exp = str(rest[i])
                    except IndexError:
                        exp = 'ERR'
                    cases.append(('cs%d' % k, '%s[%s]' % (cexpr, lit(i)), exp, dict(kind='consumed stream', len=n, consumed=c, how=how, index=i)))
                    k += 1
                for lo, hi in itertools.product([None] + list(range(-n - 2, n + 3)), repeat=2):
                    cases.append(('cz%d' % k, 'list(%s[%s:%s])' % (cexpr, '' if lo is None else lit(lo), '' if hi is None else lit(hi)), '[%s]' % ', '.join(map(str, rest[lo:hi])),
                                  dict(kind='consumed stream', len=n, consumed=c, how=how, lo=lo, hi=hi)))
                    k += 1
                cases.append(('cl%d' % k, 'len(%s)' % cexpr, str(len(rest)), dict(kind='consumed stream', len=n, consumed=c, how=how, what='len')))
                k += 1
                cases.append(('cr%d' % k, 'reverse(%s)' % cexpr, '[%s]' % ', '.join(map(str, rest[::-1])), dict(kind='consumed stream', len=n, consumed=c, how=how, what='reverse')))
                k += 1
        # ranges with a step (either sign, span not a multiple of the step): every index, last, slices, against the listed elements
        if n in (2, 3):
            for rexpr, rpy in [('(1 to 10 by 3)', [1, 4, 7, 10]), ('(1 to 9 by 3)', [1, 4, 7]), ('(0 til 7 by %d)' % n, list(range(0, 7, n))), ('(10 to 1 by (0-3))', [10, 7, 4, 1]),
                               ('(10 til 2 by (0-%d))' % n, list(range(10, 2, -n))), ('(5 til 5)', []), ('((1 to 10 by 3) drop 1)', [4, 7, 10])]:
                m = len(rpy)
                for i in list(range(-m - 3, m + 4)) + [2**62, -2**62]:
                    try:
                        exp = str(rpy[i])
                    except IndexError:
                        exp = 'ERR'
                    cases.append(('rg%d' % k, '%s[%s]' % (rexpr, lit(i)), exp, dict(kind='range', range=rexpr, index=i)))
                    k += 1
                cases.append(('rl%d' % k, 'last(%s)' % rexpr, str(rpy[-1]) if rpy else 'ERR', dict(kind='range', range=rexpr, accessor='last')))
                k += 1
                for lo, hi in itertools.product([None, 0, 1, m, -1, -2, -m - 1], repeat=2):
                    cases.append(('rs%d' % k, 'list(%s[%s:%s])' % (rexpr, '' if lo is None else lit(lo), '' if hi is None else lit(hi)), '[%s]' % ', '.join(map(str, rpy[lo:hi])),
                                  dict(kind='range', range=rexpr, lo=lo, hi=hi)))
                    k += 1
        # the accessor builtins agree with the index / slice expression they stand for (statement of C10), on every kind
        for kind, expr, showel, showlist in kinds + [('stream', sexpr, None, None)]:
            pys = py if kind != 'string' else [chr(97 + i) for i in range(n)]
            for fn, ix in [('first', 0), ('second', 1), ('third', 2), ('last', -1)]:
                try:
                    exp = str(pys[ix])
                except IndexError:
                    exp = 'ERR'
                cases.append(('ac%d' % k, '%s(%s)' % (fn, expr), exp, dict(kind=kind, len=n, accessor=fn)))
                k += 1
            forms = [('tail', 'tail(%s)' % expr, pys[1:]), ('butlast', 'butlast(%s)' % expr, pys[:-1])]
            for m in list(range(-n - 2, n + 3)) + [2**62, -2**62]:
                forms.append(('take', '(%s) take %s' % (expr, lit(m)), pys[:m]))
                forms.append(('drop', '(%s) drop %s' % (expr, lit(m)), pys[m:]))
            for fn, e, sl in forms:
                if kind == 'string':
                    cases.append(('as%d' % k, e, ''.join(sl), dict(kind=kind, len=n, accessor=fn)))
                elif kind in ('list', 'stream'):
                    cases.append(('as%d' % k, 'list(%s)' % e, '[%s]' % ', '.join(map(str, sl)), dict(kind=kind, len=n, accessor=fn)))
                else:
                    cases.append(('as%d' % k, 'list(%s)' % e, '[%s]' % ', '.join(map(str, sl)), dict(kind=kind, len=n, accessor=fn)))
                k += 1
        for i in range(-2 * n - 1, 2 * n + 2):
            if n:
                cases.append(('c%d' % k, '[%s] !%% %s' % (', '.join(map(str, py)), lit(i)), str(py[i % n]), dict(kind='list', len=n, cyclic_index=i)))
                k += 1
            cases.append(('f%d' % k, '[%s] !? %s' % (', '.join(map(str, py)), lit(i)), str(py[i]) if 0 <= i < n else 'null', dict(kind='list', len=n, safe_index=i)))
            k += 1
    return '', cases


def suite_C11():
    """bound: ranges with start/end in [-4, 6] and beyond 2^63, steps in {+-1, +-2, +-3, +-7}; stream(list) of length 0..4 after dropping 0..len+1"""
    cases = []
    k = 0
    pts = [-4, -1, 0, 1, 2, 5, 6]
    for a, b, s in itertools.product(pts + [2**63, 2**63 + 5], pts + [2**63 + 9], [1, 2, 3, 7, -1, -2, -3, -7]):
        if abs(a - b) > 40:
            continue
        py = list(range(a, b, s))
        e = '(%s til %s by %s)' % (lit(a), lit(b), lit(s))
        cases.append(('n%d' % k, 'len(%s)' % e, str(len(py)), dict(start=a, end=b, step=s, what='len')))
        k += 1
        cases.append(('l%d' % k, 'len(list(%s))' % e, str(len(py)), dict(start=a, end=b, step=s, what='iteration count')))
        k += 1
        cases.append(('v%d' % k, 'list(%s)' % e, '[%s]' % ', '.join(map(str, py)), dict(start=a, end=b, step=s, what='elements')))
        k += 1
        if py:
            cases.append(('t%d' % k, 'last(%s)' % e, str(py[-1]), dict(start=a, end=b, step=s, what='last')))
            k += 1
    def subseqs(xs):
        if not xs:
            return [[]]
        rest = subseqs(xs[1:])
        return rest + [[xs[0]] + r for r in rest]

    def show(ll):
        return '[%s]' % ', '.join('[%s]' % ', '.join(map(str, x)) for x in ll)
    for n in range(0, 5):
        py = list(range(1, n + 1))
        L = '[%s]' % ', '.join(map(str, py))
        streams = [('permutations(%s)' % L, [list(p) for p in itertools.permutations(py)]), ('subsequences(%s)' % L, subseqs(py))]
        for r in range(0, n + 2):
            streams.append(('combinations(%s, %d)' % (L, r), [list(c) for c in itertools.combinations(py, r)]))
        for r in range(0, 3):
            streams.append(('(%s ^^ %d)' % (L, r), [list(c) for c in itertools.product(py, repeat=r)]))
        for e, ref in streams:
            if len(ref) > 130 or e == '([] ^^ 0)':   # the empty product of nothing: only coherence is checked below
                continue
            for d in sorted({0, 1, len(ref) // 2, len(ref), len(ref) + 1}):
                ed = e if d == 0 else '(%s)[%d:]' % (e, d)
                cases.append(('cl%d' % k, 'len(%s)' % ed, str(len(ref[d:])), dict(stream=ed, what='len')))
                k += 1
                cases.append(('ce%d' % k, 'list(%s)' % ed, show(ref[d:]), dict(stream=ed, what='elements')))
                k += 1
    for e in ['([] ^^ 0)', '([] ^^ 2)', 'permutations([])', 'combinations([], 0)', 'subsequences([])']:
        cases.append(('co%d' % k, 'len(%s) == len(list(%s))' % (e, e), '1', dict(stream=e, what='len agrees with iteration')))
        k += 1
    for n in range(0, 5):
        py = list(range(1, n + 1))
        for d in range(0, n + 2):
            e = 'stream([%s])[%d:]' % (', '.join(map(str, py)), d)
            cases.append(('w%d' % k, 'len(%s)' % e, str(len(py[d:])), dict(stream_of=py, dropped=d, what='len')))
            k += 1
            cases.append(('y%d' % k, 'list(%s)' % e, '[%s]' % ', '.join(map(str, py[d:])), dict(stream_of=py, dropped=d, what='elements')))
            k += 1
            for i in range(-n - 2, n + 2):
                try:
                    exp = str(py[d:][i])
                except IndexError:
                    exp = 'ERR'
                cases.append(('z%d' % k, '(%s)[%s]' % (e, lit(i)), exp, dict(stream_of=py, dropped=d, index=i)))
                k += 1
    # lazy adaptors: length, elements, indexing and slicing agree whatever was observed first
    lazies = [('lazy_filter(1 to 10, \\x -> x %% 3 == 0)', [3, 6, 9]), ('lazy_filter(1 to 6, \\x -> 0)', []), ('lazy_map(1 to 4, \\x -> x * x)', [1, 4, 9, 16]),
              ('lazy_map(stream([5, 6, 7]), (+1))', [6, 7, 8]), ('lazy_filter(lazy_map(1 to 6, (*2)), (>5))', [6, 8, 10, 12]), ('(1 til 10 by 4)', [1, 5, 9])]
    for e, ref in lazies:
        for d in range(0, len(ref) + 2):
            for first in ['len(s)', 'list(s)', 's[0:]', 'null']:
                prog = '(\\ -> (s := %s; %s; t := s[%d:]; [len(t), list(t), len(s), list(s)]))()' % (e, 'try %s catch zz -> null' % first, d)
                cases.append(('lz%d' % k, prog, '[%d, %s, %d, %s]' % (len(ref[d:]), nlit(ref[d:]), len(ref), nlit(ref)),
                              dict(stream=e, dropped=d, observed_first=first, what='lazy adaptor: observations do not interfere')))
                k += 1
        for i in range(-len(ref) - 1, len(ref) + 1):
            try:
                exp = str(ref[i])
            except IndexError:
                exp = 'ERR'
            cases.append(('li%d' % k, '(\\ -> (s := %s; n := len(s); s[%s]))()' % (e, lit(i)), exp, dict(stream=e, index=i, what='lazy adaptor: index after len')))
            k += 1
        cases.append(('lr%d' % k, 'list(reverse(%s))' % e, nlit(ref[::-1]), dict(stream=e, what='lazy adaptor: reverse')))
        k += 1
    # repeat(x): an infinite constant list; bounds counted from either end
    for lo in [None, 0, 2, 5, -1, -3]:
        for hi in [None, 0, 3, 6, -1, -2]:
            sl = '(repeat(7))[%s:%s]' % ('' if lo is None else lit(lo), '' if hi is None else lit(hi))
            lneg, hneg = (lo is not None and lo < 0), (hi is None or hi < 0)
            if lneg == hneg:
                a = 0 if lo is None else lo
                b = 0 if hi is None else hi          # hi is None pairs with a negative lo: the last -lo elements
                cnt = max((b - a), 0)
                cases.append(('rp%d' % k, 'list(%s)' % sl, '[%s]' % ', '.join(['7'] * cnt), dict(stream='repeat(7)', lo=lo, hi=hi, what='slice')))
            elif lneg:
                cases.append(('rp%d' % k, 'list(%s)' % sl, '[]', dict(stream='repeat(7)', lo=lo, hi=hi, what='slice from the end to the front')))
            else:
                cases.append(('rp%d' % k, '(%s)[10]' % sl, '7', dict(stream='repeat(7)', lo=lo, hi=hi, what='slice to the infinite end is still infinite')))
            k += 1
    for i in [0, 5, -1, 2**62, -2**62]:
        cases.append(('ri%d' % k, '(repeat(7))[%s]' % lit(i), '7', dict(stream='repeat(7)', index=i)))
        k += 1
    cases.append(('rf%d' % k, 'reverse(repeat(7))[3]', '7', dict(stream='repeat(7)', what='reversal of the constant stream')))
    k += 1
    # stream(seq) and ranges at every position reached by dropping a prefix: every slice is relative to what is left (C11: "at every position")
    for n in range(0, 6):
        py = list(range(10, 10 + n))
        for base, bpy in [('stream([%s])' % ', '.join(map(str, py)), py), ('(1 to %d by 2)' % (2 * n), list(range(1, 2 * n + 1, 2)))]:
            for c in range(0, len(bpy) + 1):
                rest = bpy[c:]
                for how, cexpr in [('drop', '(%s drop %d)' % (base, c)), ('slice', '(%s)[%d:]' % (base, c))]:
                    for lo, hi in itertools.product([None] + list(range(-len(bpy) - 2, len(bpy) + 3)), repeat=2):
                        cases.append(('cz%d' % k, 'list(%s[%s:%s])' % (cexpr, '' if lo is None else lit(lo), '' if hi is None else lit(hi)), '[%s]' % ', '.join(map(str, rest[lo:hi])),
                                      dict(stream=base, consumed=c, how=how, lo=lo, hi=hi, what='slice of a consumed stream')))
                        k += 1
    return '', cases


def suite_C12():
    """bound: one value of every kind x every builtin type"""
    setup = 'struct VerifFoo(a, b);\nveriffoo := VerifFoo(1, 2);\nstruct VerifBar(p, q = 7);\nstruct VerifBaz(u = 8, r = 9);\n'
    vals = {'null': 'nulltype', '3': 'int', '(2^70)': 'int', '(6/3)': 'rational', '(1/2)': 'rational', '1.5': 'float', '(1+2i)': 'complex', '"s"': 'str', '[1]': 'list',
            '{1: 2}': 'dict', 'vector([1,2])': 'vector', 'bytes([1])': 'bytes', '(1 til 3)': 'stream', '(\\x -> x)': 'func', 'int': 'type', 'veriffoo': None}
    types = ['nulltype', 'int', 'rational', 'float', 'complex', 'number', 'str', 'list', 'dict', 'vector', 'bytes', 'stream', 'func', 'type', 'anything']
    cases = []
    k = 0
    for v, ty in vals.items():
        cases.append(('t%d' % k, '%s is type(%s)' % (v, v), '1', dict(value=v, what='v is type(v)')))
        k += 1
        cases.append(('a%d' % k, '%s is anything' % v, '1', dict(value=v, what='v is anything')))
        k += 1
        if ty is None:
            cases.append(('f%d' % k, '%s is VerifFoo' % v, '1', dict(value=v, what='instance is its struct')))
            k += 1
            continue
        for t in types:
            exp = (t == ty) or t == 'anything' or (t == 'number' and ty in ('int', 'rational', 'float', 'complex')) or (t == 'func' and ty == 'type')
            cases.append(('i%d' % k, '%s is %s' % (v, t), str(int(exp)), dict(value=v, type=t)))
            k += 1
    # a type annotation is checked at declaration (C12): `x: T := v` and `x: T = v` on a fresh name succeed exactly when v is a T
    for v, ty in vals.items():
        if ty is None:
            continue
        for t in types:
            exp = (t == ty) or t == 'anything' or (t == 'number' and ty in ('int', 'rational', 'float', 'complex')) or (t == 'func' and ty == 'type')
            for op in ('=',):
                cases.append(('d%d' % k, '(\\ -> (vx: %s %s %s; "declared"))()' % (t, op, v), 'declared' if exp else 'ERR', dict(value=v, type=t, form=op, what='annotation checked at declaration')))
                k += 1
    for t, v, exp in [('VerifFoo', 'veriffoo', 'declared'), ('VerifBar', 'veriffoo', 'ERR'), ('VerifFoo', '3', 'ERR'), ('VerifBar', 'VerifBar(1)', 'declared')]:
        cases.append(('ds%d' % k, '(\\ -> (vx: %s = %s; "declared"))()' % (t, v), exp, dict(value=v, type=t, what='struct annotation checked at declaration')))
        k += 1
    # a type annotation is enforced by every later assignment form (C12): the program must raise
    for decl, stmt in [('n: int = 7', 'n = 1/2'), ('n: int = 7', 'n /= 2'), ('n: int = 7', 'n += 0.5'), ('xs: list = [1, 2]', 'xs = "s"'),
                       ('xs: list = [1, 2]', 'xs join= ","'), ('q: rational = 1/2', 'q = 1'), ('s: str = "a"', 's = 1'), ('n: number = 1', 'n = "x"')]:
        cases.append(('e%d' % k, '(\\ -> (%s; %s; "completed"))()' % (decl, stmt), 'ERR', dict(declaration=decl, statement=stmt, what='annotation must be enforced')))
        k += 1
    for decl, stmt, exp in [('n: int = 7', 'n += 1', '8'), ('q: rational = 1/2', 'q *= 3', '3/2'), ('n: number = 1', 'n = 2.5', '2.5'), ('xs: list = [1]', 'xs append= 2', '[1, 2]')]:
        var = decl.split(':')[0]
        cases.append(('k%d' % k, '(\\ -> (%s; %s; %s))()' % (decl, stmt, var), exp, dict(declaration=decl, statement=stmt, what='type-preserving assignment is accepted')))
        k += 1
    for val, pat, exp in [('[1, [2, 3]]', 'literally [1, [2, 3]]', 'hit'), ('{1: 2}', 'literally {1: 2}', 'hit'), ('[1, 2]', 'literally [1, 3]', 'other'),
                          ('2.0', '2', 'hit'), ('"ab"', '"ab"', 'hit'), ('[1, 2, 3]', 'a, ...b', 'hit'), ('[1, 2]', 'a, b, c', 'other'), ('5', 'x: str', 'other')]:
        cases.append(('p%d' % k, 'switch (%s) case %s -> "hit" case _ -> "other"' % (val, pat), exp, dict(value=val, pattern=pat, what='switch runs the first matching arm')))
        k += 1
    # sequence patterns: equal length except around one splat; too few values raise
    for pat, names, val, exp in [('a, ...b, c', '[a, b, c]', '[1, 2]', '[1, [], 2]'), ('a, ...b, c', '[a, b, c]', '[1, 2, 3, 4]', '[1, [2, 3], 4]'),
                                 ('a, ...b, c', '[a, b, c]', '[1]', 'ERR'), ('a, ...b, c', '[a, b, c]', '[]', 'ERR'), ('a, ...b', '[a, b]', '[]', 'ERR'),
                                 ('a, ...b', '[a, b]', '[1]', '[1, []]'), ('...b, c, d', '[b, c, d]', '[1]', 'ERR'), ('...b, c, d', '[b, c, d]', '[1, 2]', '[[], 1, 2]'),
                                 ('...b, c, d', '[b, c, d]', '[1, 2, 3]', '[[1], 2, 3]'), ('a, b, ...c', '[a, b, c]', '[1, 2, 3, 4]', '[1, 2, [3, 4]]'),
                                 ('a, b, ...c', '[a, b, c]', '[1]', 'ERR'), ('a, b', '[a, b]', '[1, 2, 3]', 'ERR'), ('a, b', '[a, b]', '[1]', 'ERR'),
                                 ('a, b', '[a, b]', '"xy"', '["x", "y"]'), ('a, ...b, c', '[a, b, c]', '1 til 6', '[1, [2, 3, 4], 5]')]:
        cases.append(('sp%d' % k, '(\\ -> (%s := %s; %s))()' % (pat, val, names), exp, dict(pattern=pat, value=val, what='sequence pattern with a splat')))
        k += 1
    # pattern forms of the property statement: constructors inverted, literals by ==, or/and, nesting, defaults, annotations, catch, for, lambda
    for prog, exp in [('h .+ t := [1, 2, 3]; [h, t]', '[1, [2, 3]]'), ('xs +. x := [1, 2, 3]; [xs, x]', '[[1, 2], 3]'), ('h .+ t := []; [h, t]', 'ERR'),
                      ('xs +. x := []; [xs, x]', 'ERR'), ('h .+ t := [7]; [h, t]', '[7, []]'), ('n + 1 := 5; n', '4'), ('-x := 5; x', '-5'), ('n * 2 := 10; n', '5'),
                      ('n * 2 := 5; n', 'ERR'), ('a / b := 3/4; [a, b]', '[3, 4]'), ('a / b := 3; [a, b]', '[3, 1]'), ('a / b := (0-6)/4; [a, b]', '[-3, 2]'),
                      ('switch (5) case 1 < _ < 9 -> "in" case _ -> "out"', 'in'), ('switch (9) case 1 < _ < 9 -> "in" case _ -> "out"', 'out'),
                      ('switch (1) case 1 < _ < 9 -> "in" case _ -> "out"', 'out'), ('switch (5) case 1 < x < 9 -> x case _ -> "out"', '5'),
                      ('switch (3) case 1 or 3 -> "hit" case _ -> "miss"', 'hit'), ('switch (2) case 1 or 3 -> "hit" case _ -> "miss"', 'miss'),
                      ('switch ([1, 2]) case p and (a, b) -> [p, a, b] case _ -> "miss"', '[[1, 2], 1, 2]'), ('switch ("a") case "a" -> 1 case _ -> 2', '1'),
                      ('switch (2.0) case 1 -> "one" case 2 -> "two" case _ -> "other"', 'two'),
                      ('y := 3; switch (3) case literally y -> "same" case _ -> "other"', 'same'), ('y := 3; switch (4) case literally y -> "same" case _ -> "other"', 'other'),
                      ('(a, (b, c)), d := [[1, [2, 3]], 4]; [a, b, c, d]', '[1, 2, 3, 4]'), ('(a, (b, c)), d := [[1, [2]], 4]; [a, b, c, d]', 'ERR'),
                      ('(\\a, b = 9 -> [a, b])(1)', '[1, 9]'), ('(\\a, b = 9 -> [a, b])(1, 2)', '[1, 2]'), ('(\\a, b = 9 -> [a, b])()', 'ERR'),
                      ('(a: int), (b: str) = [1, "x"]; [a, b]', '[1, "x"]'), ('(a: int), (b: str) = [1, 2]; [a, b]', 'ERR'),
                      ('switch (7) case 1 -> 1 case 2 -> 2', 'ERR'), ('switch (2) case 1 -> "a" case 2 -> "b" case 2 -> "c"', 'b'),
                      ('VerifFoo(m, n) := VerifFoo(3, 4); [m, n]', '[3, 4]'), ('VerifFoo(m, n) := VerifBar(3, 4); [m, n]', 'ERR'),
                      ('try throw [1, 2] catch a, b -> a + b', '3'), ('try (try throw 5 catch a, b -> a + b) catch e -> ["outer", e]', '["outer", 5]'),
                      ('for (a, b <- [[1, 2], [3, 4]]) yield a * b', '[2, 12]'), ('for (a, b <- [[1, 2], [3]]) yield a * b', 'ERR'),
                      ('(\\(a, b), c -> a + b + c)([1, 2], 3)', '6'), ('_, b := [1, 2]; b', '2'), ('a, b := "xy"; [a, b]', '["x", "y"]'),
                      ('a, b := {1: 2, 3: 4}; sort([a, b])', '[1, 3]'), ('a, b := V(1, 2); a + b', '3')]:
        cases.append(('pf%d' % k, '(\\ -> (%s))()' % prog, exp, dict(program=prog, what='pattern form')))
        k += 1
    # lambda parameter lists: one optional splat (bare or annotated), trailing defaults, every argument count.
    # Reference: values fill the non-splat parameters from the left; a parameter with a default uses it iff there are not more
    # values than non-splat parameters before it; the splat takes what is left in the middle; too few / too many values raise.
    def bind(params, n):
        vals = list(range(1, n + 1))
        nonsplat_before = 0
        for kind_, _nm, dflt in params:
            if kind_ == 'splat':
                continue
            if dflt is not None and n <= nonsplat_before:
                vals.append(dflt)
            nonsplat_before += 1
        fixed = [q for q in params if q[0] != 'splat']
        has_splat = len(fixed) != len(params)
        if (not has_splat and len(vals) != len(fixed)) or (has_splat and len(vals) < len(fixed)):
            return None
        si = next((i for i, q in enumerate(params) if q[0] == 'splat'), None)
        if si is None:
            return vals
        right = len(params) - si - 1
        return vals[:si] + [vals[si:len(vals) - right]] + vals[len(vals) - right:]
    shapes = [[('p', 'a', None), ('splat', 'r', None), ('p', 'z', 9)], [('p', 'a', None), ('splat', 'r', None), ('p', 'y', 8), ('p', 'z', 9)],
              [('splat', 'r', None), ('p', 'a', None), ('p', 'z', 9)], [('p', 'a', None), ('p', 'y', 8), ('p', 'z', 9)],
              [('p', 'a', None), ('p', 'b', None), ('splat', 'r', None)], [('p', 'a', None), ('splat', 'r', None), ('p', 'b', None)], [('p', 'a', None), ('p', 'z', 9)]]
    for params in shapes:
        for anno in ([False, True] if any(q[0] == 'splat' for q in params) else [False]):
            ptxt = ', '.join(('...%s%s' % (nm, ': list' if anno else '')) if kd == 'splat' else (nm if df is None else '(%s = %d)' % (nm, df)) for kd, nm, df in params)
            names = '[%s]' % ', '.join(nm for _kd, nm, _df in params)
            for n in range(0, 5):
                want = bind(params, n)
                cases.append(('lb%d' % k, '(\\%s -> %s)(%s)' % (ptxt, names, ', '.join(map(str, range(1, n + 1)))), 'ERR' if want is None else nlit(want),
                              dict(parameters=ptxt, n_arguments=n, what='parameter list with splat / defaults')))
                k += 1
    # struct construction: arguments first, then the defaults of the remaining fields; a missing field without default raises
    for expr, exp in [('q(VerifBar(1))', '7'), ('p(VerifBar(1))', '1'), ('q(VerifBar(1, 2))', '2'), ('VerifBar()', 'ERR'), ('VerifFoo(1)', 'ERR'), ('b(VerifFoo(1, 2))', '2'),
                      ('VerifBar(1) is VerifBar', '1'), ('VerifBar(1) is VerifFoo', '0'), ('(\\ -> (VerifBar(x, y) := VerifBar(3); [x, y]))()', '[3, 7]'),
                      ('r(VerifBaz())', '9'), ('[u(VerifBaz()), r(VerifBaz(1))]', '[8, 9]'), ('a(VerifBar(1))', 'ERR')]:
        cases.append(('sc%d' % k, expr, exp, dict(expr=expr, what='struct construction and field access')))
        k += 1
    for decl, stmt in [('x: stream = 1 til 4', 'x[0] = 7'), ('x: stream = 1 til 4', 'x[1] += 5')]:
        cases.append(('g%d' % k, '(\\ -> (%s; %s; "completed"))()' % (decl, stmt), 'ERR', dict(declaration=decl, statement=stmt, what='annotation must be enforced')))
        k += 1
    return setup, cases


def suite_C16():
    """bound: 25 integer values x 2 representations x 5 renderings"""
    cases = []
    k = 0

    def rend(n, base, upper=False):
        digs = '0123456789abcdefghijklmnopqrstuvwxyz'
        m = abs(n)
        s = ''
        while True:
            s = digs[m % base] + s
            m //= base
            if m == 0:
                break
        if upper:
            s = s.upper()
        return ('-' if n < 0 else '') + s
    for (a, ea, ra) in int_exprs(INTS):
        for flag, base, up in [('#x', 16, False), ('#X', 16, True), ('#b', 2, False), ('#o', 8, False)]:
            cases.append(('r%d' % k, '(\\n -> F"{n %s}")(%s)' % (flag, ea), rend(a, base, up), dict(n=a, repr=ra, flag=flag)))
            k += 1
        cases.append(('d%d' % k, 'str(%s)' % ea, str(a), dict(n=a, repr=ra, flag='str')))
        k += 1
        cases.append(('p%d' % k, 'int(str(%s)) == %s' % (ea, ea), '1', dict(n=a, repr=ra, flag='int(str(n))')))
        k += 1
    import base64
    for bs in [[], [0], [1, 2], [15, 16, 255], [0, 0, 7], list(range(0, 40, 3)), [255, 254, 253, 1]]:
        lst = 'bytes([%s])' % ', '.join(map(str, bs))
        cases.append(('h%d' % k, 'hex_encode(%s)' % lst, bytes(bs).hex(), dict(bytes=bs, what='hex_encode')))
        k += 1
        cases.append(('g%d' % k, 'hex_decode(hex_encode(%s)) == %s' % (lst, lst), '1', dict(bytes=bs, what='hex round trip')))
        k += 1
        cases.append(('b%d' % k, 'base64_encode(%s)' % lst, base64.b64encode(bytes(bs)).decode(), dict(bytes=bs, what='base64_encode')))
        k += 1
        cases.append(('c%d' % k, 'base64_decode(base64_encode(%s)) == %s' % (lst, lst), '1', dict(bytes=bs, what='base64 round trip')))
        k += 1
    for st in ['', 'a', 'h\u00e9', 'z\u4e16\u754c', 'tab\\tq']:
        lit_s = '"%s"' % st.encode('utf-8').decode('unicode_escape').encode('latin-1', 'ignore').decode('latin-1') if False else None
    for st in ['', 'a', 'abc xyz', '0123']:
        cases.append(('u%d' % k, 'utf8_decode(utf8_encode("%s")) == "%s"' % (st, st), '1', dict(string=st, what='utf8 round trip')))
        k += 1
        cases.append(('e%d' % k, 'list(utf8_encode("%s"))' % st, '[%s]' % ', '.join(str(b) for b in st.encode()), dict(string=st, what='utf8_encode')))
        k += 1
    for cp in [65, 97, 233, 0x4e16, 0x1f600]:
        cases.append(('o%d' % k, 'ord(chr(%d))' % cp, str(cp), dict(code_point=cp, what='chr/ord')))
        k += 1
    for (a, ea, ra) in int_exprs([0, 1, -1, 1024, 3**39, -3**39, 2**63 - 1, -2**63, 2**53 + 1]):
        cases.append(('jn%d' % k, 'json_encode(%s)' % ea, str(a), dict(n=a, repr=ra, what='json_encode of an integer')))
        k += 1
        cases.append(('jr%d' % k, 'json_decode(json_encode([%s, "k"]))[0] == %s' % (ea, ea), '1', dict(n=a, repr=ra, what='json round trip')))
        k += 1
    for txt, q in [('3.05', Fraction(61, 20)), ('0.075', Fraction(3, 40)), ('1.0625e2', Fraction(425, 4)), ('10.01', Fraction(1001, 100)), ('0.5', Fraction(1, 2)),
                   ('100', Fraction(100)), ('1.50', Fraction(3, 2)), ('0.001e3', Fraction(1)), ('7/4', Fraction(7, 4))]:
        cases.append(('dq%d' % k, 'rational("%s")' % txt, show_frac(q), dict(text=txt, what='rational(s)')))
        k += 1
    for txt, q in [('-0.5', Fraction(-1, 2)), ('-1.5', Fraction(-3, 2)), ('-2.5e1', Fraction(-25)), ('-0.075', Fraction(-3, 40)), ('-12.50e-1', Fraction(-5, 4)),
                   ('-3/4', Fraction(-3, 4)), ('-1.5/-0.5', Fraction(3)), ('+1.5', Fraction(3, 2)), ('-0.0', Fraction(0)), ('-7', Fraction(-7)), ('-1e-2', Fraction(-1, 100))]:
        cases.append(('dn%d' % k, 'rational("%s")' % txt, show_frac(q), dict(text=txt, what='rational(s) keeps the sign')))
        k += 1
    for txt, q in [('.0', Fraction(0)), ('-.0', Fraction(0)), ('.0e5', Fraction(0)), ('.00e-3', Fraction(0)), ('.0/7', Fraction(0)), ('.50', Fraction(1, 2)), ('0.', Fraction(0)),
                   ('-.250e1', Fraction(-5, 2)), ('1.0/4.00', Fraction(1, 4)), ('00.10', Fraction(1, 10)), ('5.', Fraction(5)), ('.5e1', Fraction(5)), ('0.0', Fraction(0)), ('10.0', Fraction(10))]:
        cases.append(('dz%d' % k, 'rational("%s")' % txt, show_frac(q), dict(text=txt, what='rational(s): missing integer digits, trailing zeros')))
        k += 1
    for txt, q in [('1.5', Fraction(3, 2)), ('3/4', Fraction(3, 4)), ('2e3', Fraction(2000)), ('0.125', Fraction(1, 8)), ('10', Fraction(10)), ('1.5e-2', Fraction(3, 200))]:
        cases.append(('q%d' % k, 'rational("%s")' % txt, show_frac(q), dict(text=txt, what='rational(s)')))
        k += 1
    for n, b in itertools.product([0, 1, 35, 36, 255, 2**64 + 7, -255], [2, 8, 10, 16, 35, 36]):
        cases.append(('s%d' % k, 'str_radix(%s, %d)' % (lit(n), b), rend(n, b), dict(n=n, base=b, what='str_radix')))
        k += 1
        if n >= 0:
            cases.append(('j%d' % k, 'int_radix(str_radix(%s, %d), %d)' % (lit(n), b, b), str(n), dict(n=n, base=b, what='round trip')))
            k += 1
    # every byte value through the binary-to-text codecs and gzip; malformed input raises
    import zlib
    for bs in [list(range(0, 256)), list(range(255, -1, -1)), [0] * 70, [7, 7, 7, 200] * 20]:
        lst = 'bytes(%s)' % nlit(bs)
        cases.append(('xa%d' % k, 'hex_encode(%s)' % lst, bytes(bs).hex(), dict(n_bytes=len(bs), what='hex_encode of every byte value')))
        k += 1
        cases.append(('xb%d' % k, 'base64_encode(%s)' % lst, base64.b64encode(bytes(bs)).decode(), dict(n_bytes=len(bs), what='base64_encode of every byte value')))
        k += 1
        for pair in ['hex_decode(hex_encode(%s))', 'base64_decode(base64_encode(%s))', 'decompress(compress(%s))']:
            cases.append(('xr%d' % k, (pair % lst) + ' == ' + lst, '1', dict(n_bytes=len(bs), what=pair.split('(')[0] + ' round trip')))
            k += 1
    for bad in ['hex_decode("zz")', 'hex_decode("abc")', 'base64_decode("!!!")', 'utf8_decode(bytes([255, 254]))', 'utf8_decode(bytes([195]))', 'decompress(bytes([1, 2, 3]))',
                'chr(1114112)', 'chr(55296)', 'chr(57343)', 'chr(0 - 1)', 'ord("ab")', 'ord("")', 'int("4 2")', 'int("")', 'int("1.5")', 'int_radix("12", 1)', 'str_radix(5, 37)',
                'json_decode("[")', 'json_decode("{1: 2}")', 'rational("1/0")', 'rational("abc")', 'rational("1.2.3")']:
        cases.append(('xe%d' % k, bad, 'ERR', dict(expr=bad, what='malformed input raises')))
        k += 1
    cases.append(('xh%d' % k, 'list(hex_decode("AbCd"))', '[171, 205]', dict(what='hex_decode accepts either case')))
    k += 1
    for cp in [0, 9, 10, 127, 128, 255, 256, 0x7ff, 0x800, 0xd7ff, 0xe000, 0xffff, 0x10000, 0x10ffff]:
        cases.append(('xc%d' % k, 'ord(chr(%d))' % cp, str(cp), dict(code_point=cp, what='chr/ord at encoding boundaries')))
        k += 1
        cases.append(('xu%d' % k, 'list(utf8_encode(chr(%d)))' % cp, nlit(list(chr(cp).encode('utf-8'))), dict(code_point=cp, what='utf8_encode at encoding boundaries')))
        k += 1
        cases.append(('xv%d' % k, 'utf8_decode(utf8_encode(chr(%d))) == chr(%d)' % (cp, cp), '1', dict(code_point=cp, what='utf8 round trip at encoding boundaries')))
        k += 1
    for st in ['h\u00e9z\u4e16', 'na\u00efve caf\u00e9', '\U0001f600 ok']:
        py = st.encode().decode('unicode_escape') if False else st
        cases.append(('xs%d' % k, 'list(utf8_encode("%s"))' % py, nlit(list(py.encode('utf-8'))), dict(text=py, what='utf8_encode of non-ASCII text')))
        k += 1
        cases.append(('xt%d' % k, 'utf8_decode(utf8_encode("%s")) == "%s"' % (py, py), '1', dict(text=py, what='utf8 round trip of non-ASCII text')))
        k += 1
        cases.append(('xj%d' % k, 'json_decode(json_encode(["%s", {"%s": 1}])) == ["%s", {"%s": 1}]' % (py, py, py, py), '1', dict(text=py, what='json round trip of non-ASCII text')))
        k += 1
        cases.append(('xq%d' % k, 'eval(repr("%s")) == "%s"' % (py, py), '1', dict(text=py, what='repr evaluates back')))
        k += 1
    # JSON-shaped values: encode/decode round trip, literal and repr agree with json_decode
    for v in ['null', '[]', '{}', '[1, "a", null, {"k": [2.5]}]', '{"a": [1, 2.5, "x", null], "b": {"c": []}}', '[[[]]]', '[0 - 5, 9007199254740993, 0.5, 1e21]',
              '["q\\"uote", "back\\\\slash", "tab\\t", "nl\\n"]', '{"": 0}']:
        cases.append(('xk%d' % k, 'json_decode(json_encode(%s)) == %s' % (v, v), '1', dict(value=v, what='json round trip')))
        k += 1
        cases.append(('xl%d' % k, 'eval(repr(%s)) == %s' % (v, v), '1', dict(value=v, what='repr evaluates back')))
        k += 1
        cases.append(('xm%d' % k, 'eval(json_encode(%s)) == json_decode(json_encode(%s))' % (v, v), '1', dict(value=v, what='JSON text read as a literal equals json_decode')))
        k += 1
    for txt, exp in [('12', '12'), ('-42', '-42'), ('+7', '7'), ('123456789012345678901234567890', '123456789012345678901234567890'), ('007', '7')]:
        cases.append(('xi%d' % k, 'int("%s")' % txt, exp, dict(text=txt, what='int(s)')))
        k += 1
        cases.append(('xn%d' % k, 'number("%s")' % txt, exp, dict(text=txt, what='number(s)')))
        k += 1
    # reading: digits at or above the base are refused, either letter case is accepted, bytes read like the same text
    for txt, b, want in [('9', 8, 'ERR'), ('2', 2, 'ERR'), ('g', 16, 'ERR'), ('z', 35, 'ERR'), ('1_0', 10, 'ERR'), ('-5', 10, 'ERR'), ('FF', 16, '255'), ('ff', 16, '255'),
                         ('Zz', 36, str(35 * 36 + 35)), ('777', 8, '511'), ('', 10, '0'), ('000', 7, '0')]:
        cases.append(('ir%d' % k, 'int_radix("%s", %d)' % (txt, b), want, dict(text=txt, base=b, what='int_radix on text')))
        k += 1
        cases.append(('ib%d' % k, 'int_radix(utf8_encode("%s"), %d)' % (txt, b), want, dict(text=txt, base=b, what='int_radix on bytes')))
        k += 1
    return '', cases


def nlit(v):
    """Python value -> Noulith literal (ints, strings, None, lists; tuples are written as lists)"""
    if v is None:
        return 'null'
    if isinstance(v, bool):
        return '1' if v else '0'
    if isinstance(v, int):
        return lit(v)
    if isinstance(v, str):
        return '"%s"' % v
    if isinstance(v, (list, tuple)):
        return '[%s]' % ', '.join(nlit(x) for x in v)
    raise ValueError(v)


def suite_C13():
    """bound: every listed sequence function on lists of length 0..6 with repeats (ints and strings), plus string / vector / bytes /
    stream / dict-key inputs for the kind-preserving ones; predicates from {>1, even, always, never}, keys from {negate, mod 3}, small
    numeric parameters 0..len+2. Expected values come from straightforward Python definitions; the comparison `==` is done by the
    interpreter, so a change of result kind (list vs string vs stream) is a mismatch too."""
    import itertools as it
    cases = []
    k = [0]

    def add(expr, expected, **meta):
        cases.append(('q%d' % k[0], '(%s) == %s' % (expr, expected), '1', dict(meta, expr=expr, expected_value=expected)))
        k[0] += 1

    def add_raw(expr, expected, **meta):
        cases.append(('w%d' % k[0], expr, expected, dict(meta, expr=expr)))
        k[0] += 1
    lists = [[], [5], [3, 1, 2, 3], [1, 1, 2, 2, 2, 1], [4, -2, 0, 7, 7, 1]]
    preds = [('(>1)', lambda x: x > 1), ('(\\x -> x % 2 == 0)', lambda x: x % 2 == 0), ('(\\x -> 1)', lambda x: True), ('(\\x -> 0)', lambda x: False)]
    keys = [('(\\x -> 0 - x)', lambda x: -x), ('(\\x -> x %% 3)', lambda x: x % 3)]
    for xs in lists:
        L = nlit(xs)
        for pn, pf in preds:
            add('%s filter %s' % (L, pn), nlit([x for x in xs if pf(x)]), what='filter')
            add('%s reject %s' % (L, pn), nlit([x for x in xs if not pf(x)]), what='reject')
            add('%s partition %s' % (L, pn), nlit([[x for x in xs if pf(x)], [x for x in xs if not pf(x)]]), what='partition')
            add('%s count %s' % (L, pn), nlit(sum(1 for x in xs if pf(x))), what='count')
            add('%s any %s' % (L, pn), nlit(any(pf(x) for x in xs)), what='any')
            add('%s all %s' % (L, pn), nlit(all(pf(x) for x in xs)), what='all')
            hit = [x for x in xs if pf(x)]
            add('%s find? %s' % (L, pn), nlit(hit[0] if hit else None), what='find?')
            idx = [i for i, x in enumerate(xs) if pf(x)]
            add('%s locate? %s' % (L, pn), nlit(idx[0] if idx else None), what='locate?')
            tw = list(it.takewhile(pf, xs))
            add('%s take %s' % (L, pn), nlit(tw), what='take (predicate)')
            add('%s drop %s' % (L, pn), nlit(xs[len(tw):]), what='drop (predicate)')
            grp = []
        add('%s map (*2)' % L, nlit([x * 2 for x in xs]), what='map')
        add('%s flat_map (\\x -> [x, x + 1])' % L, nlit([y for x in xs for y in (x, x + 1)]), what='flat_map')
        add('enumerate(%s)' % L, nlit([[i, x] for i, x in enumerate(xs)]), what='enumerate')
        add('reverse(%s)' % L, nlit(xs[::-1]), what='reverse')
        add('sort(%s)' % L, nlit(sorted(xs)), what='sort')
        add('%s sort (\\a, b -> b - a)' % L, nlit(sorted(xs, reverse=True)), what='sort by comparator')
        for kn, kf in keys:
            add('%s sort_on %s' % (L, kn), nlit(sorted(xs, key=kf)), what='sort_on (stable)')
            d = {}
            for x in xs:
                d.setdefault(kf(x), []).append(x)
            add('sort(%s group_all %s)' % (L, kn), nlit(sorted(d.values())), what='group_all')
        u = []
        for x in xs:
            if x not in u:
                u.append(x)
        add('unique(%s)' % L, nlit(u), what='unique')
        add('group(%s)' % L, nlit([list(g) for _, g in it.groupby(xs)]), what='group (runs of equal)')
        runs = []
        for x in xs:
            if runs and runs[-1][-1] < x:
                runs[-1].append(x)
            else:
                runs.append([x])
        add('%s group (<)' % L, nlit(runs), what='group by relation')
        for n in range(0, len(xs) + 3):
            add('%s take %d' % (L, n), nlit(xs[:n]), what='take', n=n)
            add('%s drop %d' % (L, n), nlit(xs[n:]), what='drop', n=n)
            if n >= 1:
                add('%s group %d' % (L, n), nlit([xs[i:i + n] for i in range(0, len(xs), n)]), what='group n', n=n)
                if len(xs) % n == 0:
                    add("%s group' %d" % (L, n), nlit([xs[i:i + n] for i in range(0, len(xs), n)]), what="group' n", n=n)
                else:
                    add_raw("%s group' %d" % (L, n), 'ERR', what="group' with leftover must raise", n=n)
                add('%s window %d' % (L, n), nlit([xs[i:i + n] for i in range(0, len(xs) - n + 1)]), what='window', n=n)
            else:
                add_raw('%s group 0' % L, 'ERR', what='group 0 must raise')
        add('prefixes(%s)' % L, nlit([xs[:i] for i in range(len(xs) + 1)]), what='prefixes')
        add('suffixes(%s)' % L, nlit([xs[len(xs) - i:] for i in range(len(xs) + 1)]), what='suffixes')
        fr = {}
        for x in xs:
            fr[x] = fr.get(x, 0) + 1
        add('sort(items(frequencies(%s)))' % L, nlit(sorted([kk, v] for kk, v in fr.items())), what='frequencies')
        add('%s pairwise +' % L, nlit([a + b for a, b in zip(xs, xs[1:])]), what='pairwise')
        add('%s fold + from 100' % L, nlit(100 + sum(xs)), what='fold from')
        sc = [100]
        for x in xs:
            sc.append(sc[-1] + x)
        add('%s scan + from 100' % L, nlit(sc), what='scan from')
        if xs:
            add('%s fold max' % L, nlit(max(xs)), what='fold')
            sc2 = [xs[0]]
            for x in xs[1:]:
                sc2.append(sc2[-1] + x)
            add('%s scan +' % L, nlit(sc2), what='scan')
            add('min(%s)' % L, nlit(min(xs)), what='min')
            add('max(%s)' % L, nlit(max(xs)), what='max')
        else:
            add_raw('[] fold +', 'ERR', what='fold of nothing must raise')
            add_raw('min([])', 'ERR', what='min of nothing must raise')
        add('sum(%s)' % L, nlit(sum(xs)), what='sum')
        pr = 1
        for x in xs:
            pr *= x
        add('product(%s)' % L, nlit(pr), what='product')
        for ys in [[], [10, 20], [10, 20, 30, 40, 50, 60, 70]]:
            M = nlit(ys)
            add('%s zip %s' % (L, M), nlit([[a, b] for a, b in zip(xs, ys)]), what='zip')
            add('zip(%s, %s, +)' % (L, M), nlit([a + b for a, b in zip(xs, ys)]), what='zip with')
            zl = []
            for i in range(max(len(xs), len(ys))):
                zl.append(([xs[i]] if i < len(xs) else []) + ([ys[i]] if i < len(ys) else []))
            add('%s ziplongest %s' % (L, M), nlit(zl), what='ziplongest')
            add('%s ++ %s' % (L, M), nlit(xs + ys), what='++')
            if len(xs) <= 4 and len(ys) <= 2:
                add('%s ** %s' % (L, M), nlit([[a, b] for a in xs for b in ys]), what='**')
        add('9 .+ %s' % L, nlit([9] + xs), what='.+')
        add('%s +. 9' % L, nlit(xs + [9]), what='+.')
        add('%s join ","' % L, nlit(','.join(str(x) for x in xs)), what='join')
        add('flatten([%s, [], %s])' % (L, L), nlit(xs + xs), what='flatten')
        if len(xs) <= 4:
            add('list(permutations(%s))' % L, nlit([list(p) for p in it.permutations(xs)]), what='permutations')
            for r in range(0, len(xs) + 2):
                add('list(combinations(%s, %d))' % (L, r), nlit([list(c) for c in it.combinations(xs, r)]), what='combinations', r=r)
            subs = [[]]
            for x in reversed(xs):
                subs = subs + [[x] + s for s in subs]
            add('list(subsequences(%s))' % L, nlit(subs), what='subsequences')
            if 1 <= len(xs) <= 3:
                for r in range(0, 3):
                    add('list(%s ^^ %d)' % (L, r), nlit([list(p) for p in it.product(xs, repeat=r)]), what='^^', r=r)
    add('transpose([[1, 2, 3], [4, 5, 6]])', '[[1, 4], [2, 5], [3, 6]]', what='transpose')
    add('transpose([])', '[]', what='transpose')
    add('1 .. 2', '[1, 2]', what='..')
    for n in range(0, 4):
        add('7 .* %d' % n, nlit([7] * n), what='.*', n=n)
    # strings: kind-preserving functions return strings, the others lists of one-character strings
    for st in ['', 'a', 'abca', 'hello world']:
        S = nlit(st)
        ch = list(st)
        add('%s filter (!= "a")' % S, nlit(''.join(c for c in ch if c != 'a')), what='filter keeps the string kind')
        add('%s reject (!= "a")' % S, nlit(''.join(c for c in ch if c == 'a')), what='reject keeps the string kind')
        add('reverse(%s)' % S, nlit(st[::-1]), what='reverse keeps the string kind')
        add('sort(%s)' % S, nlit(''.join(sorted(ch))), what='sort keeps the string kind')
        u = []
        for c in ch:
            if c not in u:
                u.append(c)
        add('unique(%s)' % S, nlit(''.join(u)), what='unique keeps the string kind')
        add('%s take 2' % S, nlit(st[:2]), what='take on a string')
        add('%s drop 2' % S, nlit(st[2:]), what='drop on a string')
        add('%s take (!= "c")' % S, nlit(''.join(it.takewhile(lambda c: c != 'c', ch))), what='take (predicate) on a string')
        add('%s map (\\c -> c $ c)' % S, nlit([c + c for c in ch]), what='map on a string gives a list')
        add('prefixes(%s)' % S, nlit([st[:i] for i in range(len(st) + 1)]), what='prefixes of a string')
        add('suffixes(%s)' % S, nlit([st[len(st) - i:] for i in range(len(st) + 1)]), what='suffixes of a string')
        add('%s group 2' % S, nlit([st[i:i + 2] for i in range(0, len(st), 2)]), what='group n of a string')
        add('%s window 2' % S, nlit([st[i:i + 2] for i in range(0, len(st) - 1)]), what='window of a string')
        add('%s count "a"' % S, nlit(st.count('a')), what='count on a string')
        add('words(%s)' % S, nlit(st.split()), what='words')
    for st, sep in [('a,b,,c', ','), ('', ','), ('abc', ','), (',', ','), ('a--b', '--')]:
        add('%s split %s' % (nlit(st), nlit(sep)), nlit(st.split(sep)), what='split')
    for st in ['', 'a', 'a\\nb', 'a\\nb\\n', 'a\\n\\nb', '\\n']:
        py = st.replace('\\n', '\n')
        add('lines("%s")' % st, nlit(py.splitlines()), what='lines')
    for st in ['  a b  c ', 'x', '   ']:
        add('words(%s)' % nlit(st), nlit(st.split()), what='words')
    # vectors, bytes, streams, dict keys
    add('vector([3, 1, 2]) filter (>1)', 'vector([3, 2])', what='filter keeps the vector kind')
    add('reverse(vector([3, 1, 2]))', 'vector([2, 1, 3])', what='reverse keeps the vector kind')
    add('sort(vector([3, 1, 2]))', 'vector([1, 2, 3])', what='sort keeps the vector kind')
    add('bytes([3, 1, 2]) filter (>1)', 'bytes([3, 2])', what='filter keeps the bytes kind')
    add('reverse(bytes([3, 1, 2]))', 'bytes([2, 1, 3])', what='reverse keeps the bytes kind')
    add('sort(bytes([3, 1, 2, 1]))', 'bytes([1, 1, 2, 3])', what='sort keeps the bytes kind')
    add('unique(bytes([3, 1, 3, 1]))', 'bytes([3, 1])', what='unique keeps the bytes kind')
    add('(1 til 6) filter (>2)', '[3, 4, 5]', what='filter of a stream is a list')
    add('(1 til 6) map (*2)', '[2, 4, 6, 8, 10]', what='map of a stream')
    add('list(reverse(1 til 6))', '[5, 4, 3, 2, 1]', what='reverse of a stream')
    add('(1 til 6) take 2', '[1, 2]', what='take of a stream')
    add('list((1 til 6) drop 2)', '[3, 4, 5]', what='drop of a stream')
    add('list((1 til 6) drop (<3))', '[3, 4, 5]', what='drop (predicate) of a stream')
    add('list((1 til 6) drop (<9))', '[]', what='drop (predicate) of a stream')
    add('(1 til 6) take (<3)', '[1, 2]', what='take (predicate) of a stream')
    add('(1 til 6) group 2', '[[1, 2], [3, 4], [5]]', what='group of a stream')
    add('(1 til 6) window 4', '[[1, 2, 3, 4], [2, 3, 4, 5]]', what='window of a stream')
    add('prefixes(1 til 3)', '[[], [1], [1, 2]]', what='prefixes of a stream')
    add('sum(1 til 6)', '15', what='sum of a stream')
    add('sort({3: 0, 1: 0, 2: 0} filter (>1))', '[2, 3]', what='filter of dict keys')
    add('sort({3: 0, 1: 0, 2: 0} map (*2))', '[2, 4, 6]', what='map over dict keys')
    # every sequence kind through the kind-preserving helpers, numeric parameters also held as big integers
    for xs in [[], [5], [3, 1, 2, 3], [2, 2, 1, 0, 2, 9, 9]]:
        for kind, mk, same in [('vector', 'vector(%s)', 'vector(%s)'), ('bytes', 'bytes(%s)', 'bytes(%s)'), ('stream', 'stream(%s)', '%s'), ('list', '%s', '%s')]:
            X = mk % nlit(xs)
            K = lambda v: same % nlit(v)          # result of a kind-preserving function
            KL = lambda vs: '[%s]' % ', '.join(K(v) for v in vs)
            u = []
            for x in xs:
                if x not in u:
                    u.append(x)
            add('%s filter (>1)' % X, K([x for x in xs if x > 1]), what='filter keeps the kind', kind=kind)
            add('%s reject (>1)' % X, K([x for x in xs if not x > 1]), what='reject keeps the kind', kind=kind)
            add('reverse(%s)' % X, K(xs[::-1]), what='reverse keeps the kind', kind=kind)
            add('sort(%s)' % X, K(sorted(xs)), what='sort keeps the kind', kind=kind)
            add('unique(%s)' % X, K(u), what='unique keeps the kind', kind=kind)
            add('%s sort_on (\\x -> 0 - x)' % X, K(sorted(xs, key=lambda x: -x)), what='sort_on keeps the kind', kind=kind)
            add('%s take (>1)' % X, K(list(it.takewhile(lambda x: x > 1, xs))), what='take (predicate) keeps the kind', kind=kind)
            add('list(%s drop (>1))' % X, nlit(list(it.dropwhile(lambda x: x > 1, xs))), what='drop (predicate)', kind=kind)
            add('%s map (+1)' % X, nlit([x + 1 for x in xs]), what='map gives a list', kind=kind)
            add('%s partition (>1)' % X, nlit([[x for x in xs if x > 1], [x for x in xs if not x > 1]]), what='partition gives lists', kind=kind)
            add('prefixes(%s)' % X, KL([xs[:i] for i in range(len(xs) + 1)]), what='prefixes keep the kind', kind=kind)
            add('suffixes(%s)' % X, KL([xs[len(xs) - i:] for i in range(len(xs) + 1)]), what='suffixes keep the kind', kind=kind)
            add('sum(%s)' % X, nlit(sum(xs)), what='sum', kind=kind)
            add('%s count 2' % X, nlit(xs.count(2)), what='count', kind=kind)
            if kind != 'stream':
                add('%s ++ %s' % (X, X), K(xs + xs), what='++ keeps the kind', kind=kind)
            for n in [0, 1, 2, len(xs), len(xs) + 2]:
                for rep, N in [('small', lit(n)), ('big', big_repr(n))]:
                    add('%s take %s' % (X, N), K(xs[:n]), what='take n keeps the kind', kind=kind, n=n, repr=rep)
                    add('list(%s drop %s)' % (X, N), nlit(xs[n:]), what='drop n', kind=kind, n=n, repr=rep)
                    if n >= 1:
                        add('%s group %s' % (X, N), KL([xs[i:i + n] for i in range(0, len(xs), n)]), what='group n keeps the kind', kind=kind, n=n, repr=rep)
                        add('%s window %s' % (X, N), KL([xs[i:i + n] for i in range(0, len(xs) - n + 1)]), what='window n keeps the kind', kind=kind, n=n, repr=rep)
    for n, N in [(2, big_repr(2)), (0, big_repr(0)), (3, '(6 // 2)'), (2, '(2 ^ 1)')]:
        add('7 .* %s' % N, nlit([7] * n), what='.* with a computed count', n=n)
        add('list([1, 2] ^^ %s)' % N, nlit([list(p) for p in it.product([1, 2], repeat=n)]), what='^^ with a computed power', n=n)
        add('list(combinations([1, 2, 3], %s))' % N, nlit([list(c) for c in it.combinations([1, 2, 3], n)]), what='combinations with a computed size', n=n)
    # long inputs: sorting algorithms switch strategy above ~20 elements
    recs = [[i % 3, i] for i in range(40)]
    add('%s sort_on first' % nlit(recs), nlit(sorted(recs, key=lambda r: r[0])), what='sort_on is stable on 40 records')
    add('%s sort (\\a, b -> first(a) - first(b))' % nlit(recs), nlit(sorted(recs, key=lambda r: r[0])), what='sort by comparator is stable on 40 records')
    long = [(i * 7) % 11 for i in range(40)]
    add('sort(%s)' % nlit(long), nlit(sorted(long)), what='sort of 40 items')
    u40 = []
    for x in long:
        if x not in u40:
            u40.append(x)
    add('unique(%s)' % nlit(long), nlit(u40), what='unique of 40 items')
    add('reverse(%s)' % nlit(long), nlit(long[::-1]), what='reverse of 40 items')
    add('%s filter (>4)' % nlit(long), nlit([x for x in long if x > 4]), what='filter of 40 items')
    add('%s group 7' % nlit(long), nlit([long[i:i + 7] for i in range(0, 40, 7)]), what='group n of 40 items')
    # non-ASCII text: the functions that iterate work on characters (len / s[i] / take n / drop n address UTF-8 bytes by design, see C10)
    for st in ['h\u00e9llo', 'na\u00efve caf\u00e9', '\u00e9ab', 'z\u4e16\u754c!']:
        py = st
        S = '"%s"' % py
        ch = list(py)
        add('%s take (!= "l")' % S, '"%s"' % ''.join(it.takewhile(lambda c: c != 'l', ch)), what='take (predicate) on non-ASCII text')
        add('%s take (!= "b")' % S, '"%s"' % ''.join(it.takewhile(lambda c: c != 'b', ch)), what='take (predicate) on non-ASCII text')
        add('%s take (!= " ")' % S, '"%s"' % ''.join(it.takewhile(lambda c: c != ' ', ch)), what='take (predicate) on non-ASCII text')
        add('%s drop (!= " ")' % S, '"%s"' % ''.join(it.dropwhile(lambda c: c != ' ', ch)), what='drop (predicate) on non-ASCII text')
        add('(%s take (!= "a")) $ (%s drop (!= "a"))' % (S, S), S, what='take ++ drop is the text')
        add('reverse(%s)' % S, '"%s"' % py[::-1], what='reverse of non-ASCII text')
        add('%s filter (!= "a")' % S, '"%s"' % ''.join(c for c in ch if c != 'a'), what='filter of non-ASCII text')
        add('%s window 2' % S, '[%s]' % ', '.join('"%s"' % py[i:i + 2] for i in range(len(py) - 1)), what='window of non-ASCII text')
        add('prefixes(%s)' % S, '[%s]' % ', '.join('"%s"' % py[:i] for i in range(len(py) + 1)), what='prefixes of non-ASCII text')
    # stepped ranges whose span is not a multiple of the step
    for a, b, st in [(1, 9, 3), (0, 7, 2), (1, 10, 4), (9, 1, -3), (7, 0, -2), (0, 0, 2), (5, 6, 7)]:
        r = list(range(a, b, st))
        R = '(%s til %s by %s)' % (lit(a), lit(b), lit(st))
        add('list(reverse(%s))' % R, nlit(r[::-1]), what='reverse of a stepped range')
        add('suffixes(%s)' % R, nlit([r[len(r) - i:] for i in range(len(r) + 1)]), what='suffixes of a stepped range')
        add('prefixes(%s)' % R, nlit([r[:i] for i in range(len(r) + 1)]), what='prefixes of a stepped range')
        add('sort(%s)' % R, nlit(sorted(r)), what='sort of a stepped range')
        add('%s window 2' % R, nlit([r[i:i + 2] for i in range(len(r) - 1)]), what='window of a stepped range')
        add('sum(%s)' % R, nlit(sum(r)), what='sum of a stepped range')
    # relations that are not equivalences: each element is compared with its predecessor
    for xs in [[1, 2, 3, 5, 6, 8], [1, 3, 2, 4, 1, 5, 0], [5, 4, 3, 3, 2]]:
        runs = []
        for x in xs:
            if runs and runs[-1][-1] + 1 == x:
                runs[-1].append(x)
            else:
                runs.append([x])
        add('%s group (\\a, b -> a + 1 == b)' % nlit(xs), nlit(runs), what='group by relation compares neighbours')
        runs = []
        for x in xs:
            if runs and runs[-1][-1] < x:
                runs[-1].append(x)
            else:
                runs.append([x])
        add('%s group (<)' % nlit(xs), nlit(runs), what='group by relation compares neighbours')
    # lines / words / split on texts with carriage returns, tabs and empty pieces (reference: Python)
    for raw in ['a\\r\\nb\\r\\n', '\\r\\n', 'a\\rb', 'a\\r', 'x\\n\\ny', '\\n\\n', 'a\\tb  c\\n d', ' \\t ', 'no newline', 'tail\\n']:
        py = raw.replace('\\r', '\r').replace('\\n', '\n').replace('\\t', '\t')
        pieces = py.split('\n')
        if pieces and pieces[-1] == '':
            pieces = pieces[:-1]
        show = lambda xs_: '[%s]' % ', '.join('"%s"' % x.replace('\r', '\\r').replace('\t', '\\t').replace('\n', '\\n') for x in xs_)
        add('lines("%s")' % raw, show(pieces), what='lines keeps everything but the line feeds', text=raw)
        add('words("%s")' % raw, show(py.split()), what='words splits on runs of white space', text=raw)
        add('"%s" split "\\n"' % raw, show(py.split('\n')), what='split keeps empty pieces', text=raw)
        add('unwords(words("%s")) == (words("%s") join " ")' % (raw, raw), '1', what='unwords joins with one space', text=raw)
    # sum / product / min / max / any / all are folds: they agree with the fold written out, also on mixed and odd inputs
    odd = ['[3, 0, V(1, 2)]', '[0, V()]', '[2, 0, 1/0.0]', '[0, 2i]', '[4, 0, "x"]', '[0, null]', '[0, [1, 2]]', '[V(1, 2), 0]', '[1/2, 0.5, 2]', '[0.0, V(1, 2)]', '[]', '[0]',
           '[2, 3, 0, 5]', '[1, 2, V(1, 2), 3]', '["a", "b"]', '[1, "a"]', '(1 til 5)', 'V(2, 0, 3)']
    for X in odd:
        for agg, fold_ in [('product(%s)', '%s fold * from 1'), ('sum(%s)', '%s fold + from 0')]:
            lhs = '(try str(%s) catch vze -> "ERR")' % (agg % X)
            rhs = '(try str(%s) catch vze -> "ERR")' % (fold_ % X)
            add('%s == %s' % (lhs, rhs), '1', what='aggregate agrees with its fold definition', input=X, aggregate=agg.split('(')[0])
        for agg, op_ in [('max(%s)', 'max'), ('min(%s)', 'min')]:
            lhs = '(try str(%s) catch vze -> "ERR")' % (agg % X)
            rhs = '(try str(%s fold %s) catch vze -> "ERR")' % (X, op_)
            add('%s == %s' % (lhs, rhs), '1', what='extremum agrees with its fold definition', input=X, aggregate=op_)
    for X in ['[0, 0, 3]', '[0, V(0, 1)]', '[1, "x"]', '[0, null]', '[]', '[null]', '[[], [0]]', '["", "a"]']:
        lhs = '(try str(any(%s)) catch vze -> "ERR")' % X
        rhs = '(try str((%s filter (\\vzx -> vzx)) != []) catch vze -> "ERR")' % X
        add('%s == %s' % (lhs, rhs), '1', what='any is "some element is truthy"', input=X)
        lhs = '(try str(all(%s)) catch vze -> "ERR")' % X
        rhs = '(try str((%s reject (\\vzx -> vzx)) == []) catch vze -> "ERR")' % X
        add('%s == %s' % (lhs, rhs), '1', what='all is "no element is falsy"', input=X)
    # stability and mixed numeric kinds
    add('[[2, "a"], [1, "b"], [2, "c"], [1, "d"]] sort_on first', '[[1, "b"], [1, "d"], [2, "a"], [2, "c"]]', what='sort_on is stable')
    add('sort([[2, "a"], [1, "b"], [2, "c"], [1, "d"]] map first)', '[1, 1, 2, 2]', what='sort')
    add('sort([2, 1.5, 1/2, 1])', '[1/2, 1, 1.5, 2]', what='sort of mixed numbers')
    add('unique([1, 1.0, 2/2, 2])', '[1, 2]', what='unique uses value equality')
    add('sort(["b", "a", "c", "a"])', '["a", "a", "b", "c"]', what='sort of strings')
    add('max(["b", "a", "c"])', '"c"', what='max of strings')
    return '', cases



def suite_C15():
    """bound: every numeric literal form (decimal up to 60 digits, 0x/0b/0o, NrDIGITS for every radix 2..36, 64r, q / f / i / j suffixes,
    ., e, e-, e+) over a pool of values, every string escape form over a pool of code points, and 3000 pseudo-random token soups /
    mutated programs (seeded, so the same programs every run) that must produce a value or a catchable error, never a crash.
    A case with expected value None only requires 'no crash'."""
    import random
    cases = []
    k = [0]

    def lit_case(src, expected, **meta):
        esc = src.replace('\\', '\\\\').replace('"', '\\"')
        cases.append(('t%d' % k[0], 'eval("%s")' % esc, expected, dict(meta, source=src)))
        k[0] += 1
    digs = '0123456789abcdefghijklmnopqrstuvwxyz'

    def rend(n, base):
        s_ = ''
        while True:
            s_ = digs[n % base] + s_
            n //= base
            if n == 0:
                return s_
    values = [0, 1, 7, 35, 36, 255, 256, 1295, 2**31, 2**63 - 1, 2**63, 2**64 + 1, 10**30 + 7, 3**100]
    for n in values:
        lit_case(str(n), str(n), what='decimal integer literal', value=n)
        lit_case('000' + str(n), str(n), what='leading zeros', value=n)
        lit_case('0x' + rend(n, 16), str(n), what='0x literal', value=n)
        lit_case('0X' + rend(n, 16).upper(), str(n), what='0X literal, upper-case digits', value=n)
        lit_case('0b' + rend(n, 2), str(n), what='0b literal', value=n)
        lit_case('0o' + rend(n, 8), str(n), what='0o literal', value=n)
        lit_case(str(n) + 'q', str(n), what='rational literal', value=n)
        for base in range(2, 37):
            lit_case('%dr%s' % (base, rend(n, base)), str(n), what='NrDIGITS', value=n, radix=base)
        lit_case('36r' + rend(n, 36).upper(), str(n), what='NrDIGITS, upper-case digits', value=n, radix=36)
    lit_case('64rAQID', str(66051), what='base-64 literal')
    b64 = 'ABCDEFGHIJKLMNOPQRSTUVWXYZabcdefghijklmnopqrstuvwxyz0123456789+/'
    for txt in ['A', 'B', 'Z', 'a', 'z', '0', '9', '+', '/', 'BA', '9z', 'zz99', 'AB09az', b64, b64[::-1]]:
        v = 0
        for ch in txt:
            v = v * 64 + b64.index(ch)
        lit_case('64r' + txt, str(v), what='base-64 literal', digits=txt)
    lit_case('64r-_', str(62 * 64 + 63), what='base-64 literal, URL-safe alphabet')
    for src in ['1r5', '37r5', '2r2', '8r9', '16rfg', '12abc', '1.5.2', '1_000', '1e', '5 f', '0b2', '0o8', '0xg']:
        lit_case(src, 'ERR', what='malformed numeric literal is refused')
    for src, exp in [('1.5', '1.5'), ('1.', '1'), ('0.1', '0.1'), ('1e3', '1000'), ('1E3', '1000'), ('1e-3', '0.001'), ('1e+3', '1000'), ('1.5e2', '150'), ('1.5e+2', '150'),
                     ('2.5e-1', '0.25'), ('2f', '2'), ('1e400', 'inf'), ('0.30000000000000004', '0.30000000000000004'), ('123456789.125', '123456789.125'),
                     ('2i', '0+2i'), ('1.5i', '0+1.5i'), ('3j', '0+3i'), ('9007199254740993f', '9007199254740992'), ('0.5e1', '5')]:
        lit_case(src, exp, what='float / imaginary literal')
    for src, exp in [('1/2', '1/2'), ('3q/4', '3/4'), ('6q/4q', '3/2')]:
        lit_case(src, exp, what='rational arithmetic on literals')
    # string escapes: the value is the text the escapes spell
    for cp in [0x41, 0x7f, 0xe9, 0xff, 0x100, 0x4e16, 0xd7ff, 0xe000, 0xffff, 0x10000, 0x1f600, 0x10ffff]:
        for op, cl in [('{', '}'), ('(', ')'), ('[', ']'), ('<', '>')]:
            lit_case('ord("\\u%s%x%s")' % (op, cp, cl), str(cp), what='\\u escape', code_point=cp, brackets=op + cl)
        if cp <= 0xff:
            lit_case('ord("\\x%02x")' % cp, str(cp), what='\\x escape', code_point=cp)
    for src, exp in [('"a\\nb"', 'a\nb'), ('len("\\t\\r\\0\\\\")', '4'), ("'it\\'s'", "it's"), ('"say \\"hi\\""', 'say "hi"'), ('R"raw\\n"', 'raw\\n'), ('len(R"raw\\n")', '5'),
                     ('list(B"ab\\x01")', '[97, 98, 1]'), ('""', ''), ('"multi\nline"', 'multi\nline'), ('len("multi\nline")', '10'), ('"\\u{e9}z"', '\u00e9z'), ('1 # trailing', '1')]:
        if '\n' in exp:
            continue
        lit_case(src, exp, what='string / bytes / raw literal')
    for src in ['"\\u{fffffffff}"', '"\\u{ffffffffffffffffffffff}"', '"\\q"', '"\\x4"', '"\\xzz"', '"\\u{110000}"', '"\\u{d800}"', '"\\u{}x"', '"unterminated', "'unterminated", '# comment only', '"\\u{e9"', 'R"x', 'B"\\u{100}"']:
        lit_case(src, None, what='malformed literal: any outcome but a crash')
    # totality: token soups and mutated programs
    toks = ['1', '0', '2', '(', ')', '[', ']', '{', '}', ',', ';', ':', ':=', '=', '+', '-', '*', '/', '%', '^', '<', '>', '==', '!', '.', '..', '...', '\\', '->', 'x', 'y', 'f', 'if',
            'else', 'for', '<-', 'yield', 'switch', 'case', 'try', 'catch', 'throw', '"a"', '"', "'", '\\u{', '}', '1.5', '1e', '1e-', '1e+', '0x', '0b1', '36r', '2r1', '_', '$', 'and',
            'or', 'not', 'null', 'struct', 'import', 'every', 'while', 'literally', 'freeze', 'lambda', '@', '#', '~', '&', '|', '!!', '!?', '!%', '+=', '-.', '|.', '++', 'til',
            'to', 'by', 'map', 'len', '[1,2]', '(1)', '{1:2}', 'x[0]', 'x[1:]', 'x.y', 'f(', 'F"{', '}"', 'F"{x', '#(', '\n', '99999999999999999999999999', '\u00e9', '\U0001f409']
    rng = random.Random(20260923)
    seeds = ['x := [1, 2, 3]; for (a <- x) yield a * 2', 'f := \\a, b -> a + b; f(1, 2)', 'switch (3) case 1 -> "a" case _ -> "b"', 'try throw 1 catch e -> e',
             'F"{1 + 2} and {3:5}"', 'struct P(a, b); P(1, 2)', '{1: 2, 3: 4}[1]', 'x := 5; x += 1; x', '[1, 2, 3][1:]', '1 < 2 < 3 and not 0']
    for i in range(3000):
        if i % 3 == 0:
            src = list(rng.choice(seeds))
            for _ in range(rng.randint(1, 3)):
                pos = rng.randrange(len(src) + 1)
                act = rng.random()
                if act < 0.4 and src:
                    del src[min(pos, len(src) - 1)]
                elif act < 0.8:
                    src.insert(pos, rng.choice('()[]{}"\'\\,;:=+-*/<>!.#$_ 019eExq'))
                else:
                    src[pos:pos] = list(rng.choice(toks))
            src = ''.join(src)
        else:
            src = ' '.join(rng.choice(toks) for _ in range(rng.randint(1, 9)))
        esc = src.replace('\\', '\\\\').replace('"', '\\"').replace('\n', '\\n')
        # the lambda and the loop keep break / continue / return inside the case
        cases.append(('s%d' % k[0], '(for (vzz <- [1]) yield (\\ -> (eval("%s"); 0))())' % esc, None, dict(source=src, what='any text parses or is refused, never a crash')))
        k[0] += 1
    return '', cases



def _climb_reference(e0, toks, tighter, chain, run):
    """precedence climbing (the Python twin of specs/chain.rs)"""
    def climb(lhs, i, left):
        while True:
            if i >= len(toks):
                return lhs, i
            f, p, e = toks[i]
            if left is not None and tighter(left, p):
                return lhs, i
            lhs, i = group([lhs], f, p, i)

    def group(args, op, p, i):
        while True:
            v, j = climb(toks[i][2], i + 1, p)
            args = args + [v]
            if j < len(toks) and chain(op, toks[j][0]) is not None:
                op = chain(op, toks[j][0])
                i = j
                continue
            return run(op, args), j
    return climb(e0, 0, None)[0]


def suite_C03():
    """bound: chains of 2..4 operators drawn from + - * // ^ with every assignment of precedences from {1, 2, 3} (ties included;
    ^ is right-associative, the others left-associative), plus comparison chains"""
    ops = ['+', '-', '*', '^', '//']
    assoc = {'+': 'L', '-': 'L', '*': 'L', '//': 'L', '^': 'R'}
    fun = {'+': lambda a, b: a + b, '-': lambda a, b: a - b, '*': lambda a, b: a * b, '^': lambda a, b: a ** b, '//': lambda a, b: a // b}
    cases = []
    k = 0
    operands = [7, 3, 2, 1, 2]
    names = {'+': 'vf_add', '-': 'vf_sub', '*': 'vf_mul', '^': 'vf_pow', '//': 'vf_div'}
    setup = 'vf_add := +; vf_sub := -; vf_mul := *; vf_pow := ^; vf_div := //;\n'
    import random
    rng = random.Random(int(os.environ.get('VERIF_SEED', '0') or 0))
    combos = []
    for n in (2, 3, 4):
        for chain_ops in itertools.product(ops, repeat=n):
            for precs in itertools.product([1, 2, 3], repeat=len(set(chain_ops))):
                combos.append((chain_ops, precs))
    rng.shuffle(combos)
    for chain_ops, precs in combos[:1500]:
        uniq = sorted(set(chain_ops))
        pmap = dict(zip(uniq, precs))

        def tighter(pl, pr):
            return pl[0] > pr[0] or (pl[0] == pr[0] and pl[1] == 'L')
        toks = [(o, (pmap[o], assoc[o]), operands[i + 1]) for i, o in enumerate(chain_ops)]
        try:
            exp = _climb_reference(operands[0], toks, tighter, lambda f, g: None, lambda op, args: fun[op](args[0], args[1]))
        except (ZeroDivisionError, OverflowError, ValueError):
            continue
        if isinstance(exp, float) or (isinstance(exp, int) and abs(exp) > 10**40):
            continue
        sets = ' '.join('%s::precedence = %d;' % (names[o], pmap[o]) for o in uniq)
        chain = str(operands[0]) + ''.join(' %s %d' % (names[o], operands[i + 1]) for i, o in enumerate(chain_ops))
        expr = '(\\ -> (%s %s))()' % (sets, chain)
        cases.append(('h%d' % k, expr, str(exp), dict(chain=chain.replace('vf_add', '+').replace('vf_sub', '-').replace('vf_mul', '*').replace('vf_pow', '^').replace('vf_div', '//'),
                                                       precedences={o: pmap[o] for o in uniq}, assoc={o: assoc[o] for o in uniq})))
        k += 1
    # chainable comparisons under reassigned precedences: merge exactly when the left operator would otherwise apply first
    cmpf = {'<': lambda a, b: int(a < b), '<=': lambda a, b: int(a <= b), '>': lambda a, b: int(a > b)}
    cnames = {'<': 'vf_lt', '<=': 'vf_le', '>': 'vf_gt'}
    setup += 'vf_lt := <; vf_le := <=; vf_gt := >;\n'
    for (o1, o2), (p1, p2), (a, b, c) in itertools.product(itertools.permutations(['<', '<=', '>'], 2), itertools.product([1, 2, 3], repeat=2),
                                                          [(1, 2, 3), (3, 2, 1), (0, 5, 3), (2, 2, 2), (-1, 5, 3)]):
        def tighter2(pl, pr):
            return pl[0] > pr[0] or (pl[0] == pr[0])   # comparisons are left-associative
        toks = [(o1, (p1, 'L'), b), (o2, (p2, 'L'), c)]

        def runc(op, args):
            if isinstance(op, tuple):   # merged chain: all adjacent comparisons hold
                return int(all(cmpf[o](x, y) for o, x, y in zip(op, args, args[1:])))
            return cmpf[op](args[0], args[1])

        def chainc(f, g):
            fs = f if isinstance(f, tuple) else (f,)
            return fs + (g,)
        exp = _climb_reference(a, toks, tighter2, chainc, runc)
        expr = '(\\ -> (%s::precedence = %d; %s::precedence = %d; %s %s %s %s %s))()' % (cnames[o1], p1, cnames[o2], p2, lit(a), cnames[o1], lit(b), cnames[o2], lit(c))
        cases.append(('q%d' % k, expr, str(exp), dict(chain='%d %s %d %s %d' % (a, o1, b, o2, c), precedences={o1: p1, o2: p2}, what='chainable comparisons')))
        k += 1
    # every operand is evaluated exactly once, left to right (direct chain; section: at creation, the slot at application)
    tr = '(\\ -> (tr := ""; t := \\x -> (tr = tr $ str(x); x); %s; tr $ "=" $ str(v)))()'
    for body, exp in [('v := t(1) + t(2) * t(3) - t(4)', '1234=3'), ('sec := t(1) + t(2) * _ - t(4); v := sec(t(3))', '1243=3'),
                      ('sec := _ + t(2) * t(3); v := sec(t(1))', '231=7'), ('v := t(5) - t(1) - t(1) ^ t(2) ^ t(0)', '51120=3'),
                      ('sec := t(9) // t(2) %% _; v := sec(t(3))', '923=1')]:
        cases.append(('o%d' % k, tr % body, exp, dict(program=body, what='operands evaluated once, left to right')))
        k += 1
    # chained comparisons merge exactly when the left one is tighter than (or ties left-assoc with) the next
    for a, b, c in itertools.product([1, 2, 3], repeat=3):
        cases.append(('m%d' % k, '%d < %d <= %d' % (a, b, c), str(int(a < b <= c)), dict(chain='%d < %d <= %d' % (a, b, c), what='comparison chain')))
        k += 1
        cases.append(('g%d' % k, '%d + %d < %d * %d' % (a, b, c, a), str(int(a + b < c * a)), dict(what='mixed')))
        k += 1
    # the builtin operators at their default precedences, written directly, inside a frozen function, and as a frozen section:
    # every spelling must group the same way (^ right-associative and tightest, then * // %%, then + -)
    bprec = {'+': (1, 'L'), '-': (1, 'L'), '*': (2, 'L'), '//': (2, 'L'), '%%': (2, 'L'), '^': (3, 'R')}
    def bpow(a, b):
        if b < 0 or b > 300 or abs(a) > 10**30:
            raise OverflowError('outside the grid')
        return a ** b
    bfun = {'+': lambda a, b: a + b, '-': lambda a, b: a - b, '*': lambda a, b: a * b, '//': lambda a, b: a // b, '%%': lambda a, b: a % b, '^': bpow}

    def btighter(pl, pr):
        return pl[0] > pr[0] or (pl[0] == pr[0] and pl[1] == 'L')
    consts = [2, 3, 2, 5]
    for n in (2, 3):
        for chain_ops in itertools.product(['+', '-', '*', '//', '%%', '^'], repeat=n):
            toks = [(o, bprec[o], consts[i + 1]) for i, o in enumerate(chain_ops)]
            try:
                exp = _climb_reference(consts[0], toks, btighter, lambda f, g: None, lambda op, args: bfun[op](args[0], args[1]))
            except (ZeroDivisionError, OverflowError, ValueError):
                continue
            if not isinstance(exp, int) or abs(exp) > 10**60:
                continue
            chain = str(consts[0]) + ''.join(' %s %d' % (o, consts[i + 1]) for i, o in enumerate(chain_ops))
            meta = dict(chain=chain, what='builtin operators at default precedences')
            cases.append(('bd%d' % k, chain, str(exp), dict(meta, spelling='direct')))
            k += 1
            cases.append(('bf%d' % k, '(freeze \\ -> %s)()' % chain, str(exp), dict(meta, spelling='frozen function')))
            k += 1
            slot = str(consts[0]) + ''.join(' %s %s' % (o, '_' if i == n - 1 else str(consts[i + 1])) for i, o in enumerate(chain_ops))
            cases.append(('bs%d' % k, '(freeze (%s))(%d)' % (slot, consts[n]), str(exp), dict(meta, spelling='frozen section, last operand is the slot')))
            k += 1
            cases.append(('bp%d' % k, '(%s)(%d)' % (slot, consts[n]), str(exp), dict(meta, spelling='section, last operand is the slot')))
            k += 1
    return setup, cases


def suite_C14():
    """bound: boundary programs that must end in a value or a catchable error, never a crash: zero divisors and zero bases of
    every numeric level, indices and slice bounds at +-2^63 and beyond, zero / huge steps, empty sequences"""
    cases = []
    k = 0
    zeros = ['0', '(0/1)', '0.0', '(0-0.0)', '(0+0i)', big_repr(0), '((1/2) - (1/2))']
    nums = ['5', '(0-5)', '(7/2)', '2.5', '(1+2i)', '2^70', '0', '(0/1)']
    for a, z in itertools.product(nums, zeros):
        for op in ['%', '//', '%%', '/!', '/', 'gcd', 'lcm']:
            cases.append(('z%d' % k, '%s %s %s' % (a, op, z), None, dict(a=a, b=z, op=op)))
            k += 1
    for z, e in itertools.product(zeros + ['(0-0)', '1', '(0-1)', '(1/2)'], ['(0-1)', '(0-2)', '0', '((0-1)/2)', '(0-1.5)', '(0-64)']):
        cases.append(('p%d' % k, '%s ^ %s' % (z, e), None, dict(base=z, exponent=e, op='^')))
        k += 1
    ext = ['(0-9223372036854775808)', '9223372036854775807', '(0-9223372036854775807)', '9223372036854775808', '(0-9223372036854775809)', '2^64', '(0-2^64)', '(1/2)', '1.5', 'null', '"x"']
    seqs = ['[]', '[1, 2, 3]', '""', '"abc"', 'vector([1, 2])', 'bytes([1, 2])', 'stream([1, 2, 3])', '(1 til 4)', '(1 til 4)[1:]']
    for lo, hi in itertools.product(range(0, 13), repeat=2):
        cases.append(('ux%d' % k, '"na\u00efve caf\u00e9"[%d:%d]' % (lo, hi), None, dict(what='string slice at arbitrary byte offsets', lo=lo, hi=hi)))
        k += 1
    for i in range(-13, 13):
        for rep in ['"i"', '"\u00e9"', '"xy"', '""', '7']:
            cases.append(('ua%d' % k, '(\\ -> (vt := "na\u00efve caf\u00e9"; vt[%s] = %s; vt))()' % (lit(i), rep), None, dict(what='string index assignment at arbitrary byte offsets', index=i, replacement=rep)))
            k += 1
    import random as _rnd
    rg = _rnd.Random(20260923)
    for size in [5, 20, 21, 22, 25, 32, 40, 64]:
        for trial in range(6):
            xs = [str(rg.randrange(-50, 50)) for _ in range(size)]
            xs[rg.randrange(size)] = ['(0.0/0.0)', '"s"', 'null', '[1]'][trial % 4]
            lst = '[%s]' % ', '.join(xs)
            for f in ['sort(%s)', '%s sort_on (\\x -> x)', 'max(%s)', 'min(%s)', '%s sort (\\a, b -> a <=> b)', 'unique(%s)', 'sort(reverse(%s))']:
                cases.append(('so%d' % k, f % lst, None, dict(what='ordering functions on a long list with one incomparable element', size=size, f=f)))
                k += 1
    for i in range(-13, 13):
        cases.append(('uy%d' % k, '"na\u00efve caf\u00e9"[%s]' % lit(i), None, dict(what='string index at arbitrary byte offsets', index=i)))
        k += 1
    smin = '((0-9223372036854775807) - 1)'
    for x in ['%s // (0-1)', '%s %%%% (0-1)', '%s /! (0-1)', '%s %% (0-1)', 'abs(%s)', '0 - %s', '%s * (0-1)', '%s - 1', '%s gcd 0', '%s lcm 3', '%s >> 1', '%s << 1', '~%s',
              'signum(%s)', '%s ^ 2', '%s // 1', '[1, 2, 3][%s]', '[1, 2, 3][%s:]', '%s til 0 by %s']:
        cases.append(('sm%d' % k, x.replace('%s', smin), None, dict(expr=x, what='i64::MIN held as a machine word')))
        k += 1
    # infinite streams with O(1) indexing: every extreme index must give a value or a catchable error
    for sq, i in itertools.product(['repeat(1)', 'cycle([1, 2, 3])', '(cycle([1, 2, 3])[1:])'], ext):
        cases.append(('ni%d' % k, '(%s)[%s]' % (sq, i), None, dict(seq=sq, index=i)))
        k += 1
    for sq, i in itertools.product(['repeat(1)', 'cycle([1, 2, 3])', 'iota(5)'], ['0', '3', '(1/2)', 'null']):
        cases.append(('nj%d' % k, '(%s)[%s]' % (sq, i), None, dict(seq=sq, index=i)))
        k += 1
        cases.append(('nt%d' % k, 'list((%s)[:%s])' % (sq, i), None, dict(seq=sq, hi=i)))
        k += 1
    for x in ['cycle([])', '(cycle([]))[0]', 'list(permutations([]))', 'list(combinations([], 1))', 'list(combinations([1, 2], 3))', 'list(subsequences([]))',
              'list([] ^^ 2)', 'list([1] ^^ 0)', 'first(cycle([]))', 'len(permutations([]))', '(repeat(1))[(0-9223372036854775808):(0-9223372036854775807)]',
              '(repeat(1))[(0-3):(0-1)]', '(repeat(1))[2:(0-1)]']:
        cases.append(('nx%d' % k, x, None, dict(expr=x)))
        k += 1
    for sq, i in itertools.product(seqs, ext):
        cases.append(('i%d' % k, '(%s)[%s]' % (sq, i), None, dict(seq=sq, index=i)))
        k += 1
        cases.append(('s%d' % k, '(%s)[%s:]' % (sq, i), None, dict(seq=sq, lo=i)))
        k += 1
        cases.append(('t%d' % k, '(%s)[:%s]' % (sq, i), None, dict(seq=sq, hi=i)))
        k += 1
        cases.append(('u%d' % k, '(%s)[1:%s]' % (sq, i), None, dict(seq=sq, lo=1, hi=i)))
        k += 1
    for sq in seqs:
        for f in ['first', 'last', 'tail', 'butlast', 'len', 'reverse', 'sort', 'max', 'min', 'sum', 'unique']:
            cases.append(('f%d' % k, '%s(%s)' % (f, sq), None, dict(fn=f, seq=sq)))
            k += 1
        for op in ['!!', '!?', '!%']:
            for i in ['0', '(0-1)', '5', '(0-9223372036854775808)', '2^64']:
                cases.append(('o%d' % k, '%s %s %s' % (sq, op, i), None, dict(seq=sq, op=op, index=i)))
                k += 1
    for a, b, st in itertools.product(['0', '5', '2^64'], ['0', '5', '(0-3)'], ['0', '(0-0)', '1', '(0-1)', '2^64', '(0/1)', '0.0']):
        cases.append(('r%d' % k, 'len(%s til %s by %s)' % (a, b, st), None, dict(start=a, end=b, step=st, what='len')))
        k += 1
    for x in ['1 << 200', '1 >> 200', '(0-1) >> 64', '1 << (0-1)', '1 << (1/2)', '5 & 1.5', '~(1/2)', 'signum(0.0/0.0)', 'abs(0-9223372036854775808)',
              'floor(1.0/0.0)', 'round(0.0/0.0)', 'int(1e300)', 'numerator(1.5)', 'even(1/2)', 'odd(0-3)', '(0-9223372036854775808) // (0-1)',
              '(0-9223372036854775808) % (0-1)', '(0-9223372036854775808) %% (0-1)', '(0-9223372036854775808) /! (0-1)', '9223372036854775807 + 1', '(0-9223372036854775808) - 1',
              '3037000500 * 3037000500', '0 - (0-9223372036854775808)', 'str_radix(5, 1)', 'str_radix(5, 37)', 'int_radix("zz", 36)', 'F"{(0-9223372036854775808) #x}"']:
        cases.append(('m%d' % k, x, None, dict(expr=x)))
        k += 1
    # destructuring: every pattern shape against too few / exactly enough / more values must bind or raise, never abort
    for pat, val in itertools.product(['a, ...b, c', 'a, ...b', '...b, c, d', 'a, b, ...c', 'a, b', 'a, ...b, c, d, e', '[a, ...b], c'],
                                      ['[]', '[1]', '[1, 2]', '[1, 2, 3, 4]', '"xy"', '1 til 3', '[[], 1]', 'null', '5']):
        cases.append(('d%d' % k, '(\\ -> (%s := %s; "bound"))()' % (pat, val), None, dict(pattern=pat, value=val, what='destructuring')))
        k += 1
    for x in ['eval("\\"\\\\u{ffffffffff}\\"")', 'eval("\\"\\\\u{110000}\\"")', 'eval("\\"\\\\u{d800}\\"")', 'eval("\\"\\\\xzz\\"")',
              '(\\ -> (xs := [1, 2, 3, 4]; xs[1:3] = 9; xs))()', '(\\ -> (xs := [1, 2, 3, 4]; every xs[1:3] = 9; xs))()', '(\\ -> (s := "abcd"; s[1:3] = "x"; s))()',
              'len("\\u{d7ff}" to "\\u{e001}")', 'len("\\u{d7ff}" til "\\u{e001}")', 'len("a" to "\\u{10ffff}")', '(1 to 80) map (\\i -> choose("h\u00e9llo w\u00f6rld"))',
              '(1 to 40) map (\\i -> choose("\u00e9"))', 'choose("")', 'choose([])', 'choose({})']:
        cases.append(('v%d' % k, x, None, dict(expr=x)))
        k += 1
    for x in ['rational("-.")', 'rational("--1.5")', 'rational("1e99999999999")', 'rational("1/0")', 'rational("")', 'list((1 til 4) drop (<9))', '(1 til 4) drop (\\x -> 1/0)']:
        cases.append(('n%d' % k, x, None, dict(expr=x)))
        k += 1
    return '', cases


def suite_C14X():
    """bound: ~100 pure builtins applied to every 1- and 2-tuple from a pool of 30 boundary values of every kind (thorough tier)"""
    pool = ['null', '0', '1', '(0-1)', '2', '3', '2^62', '2^63', '(0-2^63)', '2^64', '((0-9223372036854775807) - 1)', '(1/2)', '((0-7)/2)', '0.5', '(0-0.0)',
            '(1.0/0.0)', '(0.0/0.0)', '(1+2i)', '""', '"ab"', '"\u00e9x"', '[]', '[1, 2, 3]', '[[1], [2, 3]]', '{}', '{1: 2}', 'V(1, 2)', 'bytes([1, 2])', '(1 til 4)',
            'stream([1, 2])', '[0.5, "a", null]']
    one = ['abs', 'floor', 'ceil', 'round', 'signum', 'even', 'odd', 'numerator', 'denominator', 'real_part', 'imag_part', 'complex_parts', 'len', 'first', 'second',
           'third', 'last', 'only', 'tail', 'butlast', 'reverse', 'sort', 'unique', 'flatten', 'transpose', 'enumerate', 'pairwise', 'prefixes', 'suffixes', 'keys',
           'values', 'items', 'sum', 'product', 'max', 'min', 'any', 'all', 'frequencies', 'lines', 'words', 'unwords', 'unlines', 'upper', 'lower', 'strip', 'trim',
           'chr', 'ord', 'utf8_encode', 'utf8_decode', 'hex_encode', 'hex_decode', 'base64_encode', 'base64_decode', 'json_encode', 'json_decode', 'str', 'repr', 'int',
           'float', 'rational', 'complex', 'list', 'set', 'dict', 'vector', 'bytes', 'stream', 'cycle', 'repeat', 'iota', 'not', 'id', 'uncons', 'unsnoc', 'float_to_bits',
           'bits_to_float', 'is_big', 'type', 'group_all', 'count_distinct', 'mean', 'is_prime', 'factorize', 'permutations', 'subsequences', 'compress', 'decompress']
    two = ['+', '-', '*', '/', '%', '//', '%%', '/!', '&', '|', '<=>', '==', '!=', '<', '>=', 'min', 'max', 'gcd', 'lcm', '!!', '!?', '!%', 'take', 'drop', 'window',
           'combinations', '..', '++', '--', '&&', '||', '|.', '-.', 'in', 'not_in', 'join', 'starts_with', 'ends_with', 'contains', 'choose', 'atan2', 'str_radix',
           'int_radix', 'index', 'locate', 'find', 'zip', 'til', 'to', 'append', 'prepend', '.+', '+.', 'apply', 'of', 'split', 'search', 'count', 'group', 'fold', 'map',
           'filter', 'sort_on', 'xor', '⊕', 'subtract', 'insert', 'discard', '$']
    skip_one = {('is_prime', v) for v in pool if '2^6' in v or '922337' in v} | {('factorize', v) for v in pool if '2^6' in v or '922337' in v}
    big = [v for v in pool if '2^6' in v or '922337' in v]
    cases = []
    k = 0
    for f in one:
        for v in pool:
            if (f, v) in skip_one:
                continue
            cases.append(('a%d' % k, '%s(%s)' % (f, v), None, dict(fn=f, arg=v)))
            k += 1
    for op in two:
        for a, b in itertools.product(pool, pool):
            if op in ('til', 'to', 'choose', '..') and (a in big or b in big):
                continue   # would legitimately build astronomically large values
            cases.append(('b%d' % k, '(%s) %s (%s)' % (a, op, b), None, dict(op=op, a=a, b=b)))
            k += 1
    return '', cases


SUITES = {'C03': suite_C03, 'C06': suite_C06, 'C07': suite_C07, 'C08': suite_C08, 'C09': suite_C09, 'C10': suite_C10, 'C11': suite_C11,
          'C12': suite_C12, 'C13': suite_C13, 'C14': suite_C14, 'C15': suite_C15, 'C14X': suite_C14X, 'C16': suite_C16}
# a crash is a C14 violation whichever suite produced it
C14_SUITES = ['C14', 'C10', 'C11', 'C07', 'C08', 'C06', 'C14X']


def evaluate(binp, prop, limit=3):
    """-> (n_cases, failures[list of dict]) for the property's suite(s)"""
    names = (C14_SUITES if os.environ.get('VERIF_TIER') == 'thorough' else C14_SUITES[:3]) if prop == 'C14' else ([prop] if prop in SUITES else [])
    total, fails = 0, []
    for nm in names:
        setup, cases = SUITES[nm]()
        outs = run_cases(binp, [(c[0], c[1]) for c in cases], setup)
        total += len(cases)
        for cid, expr, exp, meta in cases:
            got = outs.get(cid, 'MISSING')
            bad = (got == 'PANIC' or got == 'TIMEOUT') if (prop == 'C14' or exp is None) else (got != exp)
            if bad:
                fails.append(dict(suite=nm, expr=expr, expected=exp, actual=got, input=meta, setup=setup.strip()))
                if len(fails) >= limit:
                    return total, fails
    return total, fails


def search(prop, f, scratch, repo):
    """replay after a failed obligation: first concrete disagreement of the real interpreter with the reference"""
    binp, cleanup = build(scratch.repo if scratch is not None else repo)
    try:
        total, fails = evaluate(binp, prop, limit=1)
        if not fails:
            return None
        w = fails[0]
        w['kind'] = 'interpreter-grid'
        w['property'] = prop
        w['grid_cases_run'] = total
        w['reproduce'] = 'echo \'%s print(try str(%s) catch e -> "ERR")\' > /tmp/r.noul && cargo run --offline -- /tmp/r.noul   # expected %s' % (
            w['setup'].replace("'", '"'), w['expr'], w['expected'])
        return w
    finally:
        cleanup()


def rerun(wit, repo):
    binp, cleanup = build(repo)
    try:
        outs = run_cases(binp, [('r', wit['expr'])], wit.get('setup', ''))
        got = outs.get('r')
        print('input   :', json.dumps(wit.get('input')))
        print('program :', wit['expr'])
        print('expected:', wit['expected'])
        print('actual  :', got)
        bad = (got in ('PANIC', 'TIMEOUT')) if (wit.get('property') == 'C14' or wit['expected'] is None) else (got != wit['expected'])
        print('=> the real code', 'STILL VIOLATES the clause on this input' if bad else 'now agrees with the reference on this input')
        return 1 if bad else 0
    finally:
        cleanup()


if __name__ == '__main__':
    import sys
    prop = sys.argv[1]
    repo = sys.argv[2] if len(sys.argv) > 2 else '/repo'
    binp, cleanup = build(repo)
    try:
        total, fails = evaluate(binp, prop, limit=5)
        print(prop, 'cases', total, 'failures', len(fails))
        for f in fails:
            print(json.dumps(f)[:600])
    finally:
        cleanup()
