"""C09 at the level of interpreter values: key validity, key equality and key hashing of core.rs (ObjKey), verbatim."""
from assemble import Item

NAME = 'keys'
PRELUDE = ['base', 'bigint', 'float', 'rational', 'opaque']
SPECS = ['keys.rs', 'realarith.rs']
DEPS = ['nint', 'nnum', 'nnumcmp', 'coretypes', 'objctors']
NEEDS_EXPANDED = True

C = 'src/core.rs'
NOISO = '#[verifier::loop_isolation(false)]'
SLICE_IT = 'it.seq().len() == %(v)s@.len() && (forall|i: int| 0 <= i < %(v)s@.len() ==> *it.seq()[i] == %(v)s@[i])'

ITEMS = [
    # `a.iter().zip(b.iter()).all(..)`: Iterator::all has no vstd specification; the contract is assumed (trusted), its meaning is key_eq on sequences
    Item(id='total_eq_of_key_seqs', source=C, locator='fn total_eq_of_key_seqs', no_body_check=True,
         ensures=[('assumed_elementwise_key_equality', 'r == key_seq_eq(*a, *b)')], props=[]),
    Item(id='total_eq_of_keys', source=C, locator='fn total_eq_of_keys',
         ensures=[('key_equality', 'r == key_eq(*a, *b)')], props=['C09']),
    Item(id='check_if_valid_key', source=C, locator='fn check_if_valid_key',
         ensures=[('ok_exactly_for_hashable_values', 'r is Ok <==> hashable(*obj)'), ('otherwise_a_type_error', 'r is Err ==> err_class(r->Err_0) == ErrClass::Type')],
         decreases='*obj', attrs=[NOISO],
         loops={'list': dict(head=r'xs\.iter\(\)', iter_name='it', invariant=[('elements_checked_so_far', SLICE_IT % dict(v='xs') + ' && (forall|i: int| 0 <= i < it.index@ ==> hashable(#[trigger] xs@[i]))')]),
                'dict': dict(head=r'd\.values\(\)', iter_name='it', invariant=[('values_checked_so_far', 'it.iter.obeys_prophetic_iter_laws() && (forall|i: int| 0 <= i < it.index@ ==> hashable(*#[trigger] it.seq()[i]))')])},
         hints=[('loop[list]:body_start', 'proof { let k = it.index@; assert(*e == xs@[k]); if !hashable(*e) { assert(!hashable(*obj)); } }', 'at'),
                ('loop[dict]:body_start', 'proof { let k = it.index@; assert(e == it.seq()[k]); if !hashable(*e) { assert(!dict_values_hashable(**d)); } axiom_dict_value_smaller(*obj, *e); }', 'at')],
         props=['C09']),
    Item(id='to_key', source=C, locator='fn to_key',
         ensures=[('a_key_is_always_hashable', 'r is Ok ==> hashable(r->Ok_0.0)'),
                  ('ok_exactly_for_hashable_values', '!(obj is Seq && obj->Seq_0 is Stream) ==> (r is Ok <==> hashable(obj))'),
                  ('the_key_is_the_value', '(r is Ok && !(obj is Seq && obj->Seq_0 is Stream)) ==> r->Ok_0.0 == obj')],
         decreases='(if obj is Seq && obj->Seq_0 is Stream { 1int } else { 0int })',
         props=['C09']),
    # equal keys hash equally: the words written are key_words(a), a function of the key's value (lemma_key_words_of_equal_keys); the panics
    # "Attempting to hash ..." are unreachable for values accepted by to_key
    Item(id='total_hash_of_key', source=C, locator='fn total_hash_of_key',
         requires=[('only_values_accepted_by_to_key_are_hashed', 'hashable(*a)')],
         ensures=[('writes_the_words_of_the_key_value', 'dict_free(*a) ==> final(state).hlog() == old(state).hlog() + key_words(*a)')],
         decreases='*a', attrs=[NOISO],
         subst=[(r'std::collections::hash_map::DefaultHasher::new\(\)', 'DefaultHasher::new()', 'path of std\'s hasher replaced by the prelude stub of the same name')],
         hints=[(r'match a \{\s+Obj::Null', 'let ghost a0 = *a; let ghost log0 = state.hlog();', 'before'),
                ('loop[list]:body_start', 'proof { let k = it.index@; assert(*e == s@[k]); assert(hashable(s@[k])); assert(dict_free(a0) ==> dict_free(s@[k])); }', 'at'),
                ('loop[dict]:body_start', 'proof { let j = it.index@; assert(0 <= j < it.seq().len()); assert(k == it.seq()[j].0); assert(v == it.seq()[j].1); axiom_dict_key_smaller(a0, *k); axiom_dict_value_smaller(a0, *v); }', 'at'),
                ('loop[vector]:body_start', 'proof { let k = it.index@; assert(*e == v@[k]); }', 'at')],
         loops={'list': dict(head=r'in s\.iter\(\)', iter_name='it', invariant=[('words_of_the_elements_so_far', SLICE_IT % dict(v='s') +
                        ' && (dict_free(a0) ==> state.hlog() == log0 + seq![HWord::U8(3), HWord::Usize(s@.len() as usize)] + list_words(a0, it.index@ as nat))')]),
                'dict': dict(head=r'd\.iter\(\)', iter_name='it', invariant=[('entries_are_hashable', 'it.iter.obeys_prophetic_iter_laws() && (forall|i: int| 0 <= i < it.seq().len() ==> hashable((#[trigger] it.seq()[i]).0.0) && '
                        'hashable(*it.seq()[i].1) && dict_contains_key(**d, *it.seq()[i].0) && dict_contains_value(**d, *it.seq()[i].1))')]),
                'vector': dict(head=r'in v\.iter\(\)', iter_name='it', invariant=[('words_of_the_numbers_so_far', SLICE_IT % dict(v='v') +
                        ' && state.hlog() == log0 + seq![HWord::U8(5), HWord::Usize(v@.len() as usize)] + vec_words(v@, it.index@ as nat)')])},
         props=['C09']),
]
