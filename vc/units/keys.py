"""C09 at the level of interpreter values: key equality and key hashing of core.rs (ObjKey)."""
from assemble import Item

NAME = 'keys'
PRELUDE = ['base', 'bigint', 'float', 'rational', 'opaque']
SPECS = ['keys.rs', 'realarith.rs']
DEPS = ['nint', 'nnum', 'nnumcmp', 'coretypes']
NEEDS_EXPANDED = True

C = 'src/core.rs'
ITEMS = [
    Item(id='total_eq_of_key_seqs', source=C, locator='fn total_eq_of_key_seqs', no_body_check=True,
         ensures=[('assumed_elementwise_key_equality', 'r == key_seq_eq(*a, *b)')], props=[]),
    Item(id='total_eq_of_keys', source=C, locator='fn total_eq_of_keys',
         ensures=[('key_equality', 'r == key_eq(*a, *b)')], props=['C09']),
]
