"""C11 kernel: the arithmetic of integer ranges (streams.rs Range): emptiness test, advance, closed-form length."""
from assemble import Item

NAME = 'rangeu'
PRELUDE = ['base', 'bigint', 'float', 'rational', 'opaque']
SPECS = ['range.rs', 'realarith.rs', 'gen:range_specimpls.rs', 'gen:range_bcast.rs']
DEPS = ['nint', 'nnum', 'coretypes']
NEEDS_EXPANDED = True

S = 'src/streams.rs'
REHOME = 'impl Range'
ITEMS = [
    Item(id='Range', kind='type', source=S, locator='struct Range',
         subst=[(r'#\[derive\([^)]*\)\]\s*', '', 'derives dropped')]),
    Item(id='from_nint_for_obj', source='src/core.rs', frm='expanded', locator='mod core / impl From<NInt> for Obj / fn from',
         ensures=[('wraps_the_integer', 'r == Obj::Num(NNum::Int(n))')], props=['C11']),
    Item(id='empty', source=S, locator='impl Range / fn empty',
         ensures=[('empty_iff_no_element_left', 'r == range_empty(self.0@, opt_nint(self.1), self.2@)')], props=['C11']),
    Item(id='next', source=S, locator='impl Iterator for Range / fn next', wrap=REHOME,
         ensures=[('none_iff_empty', 'r is None <==> range_empty(old(self).0@, opt_nint(old(self).1), old(self).2@)'),
                  ('yields_current_start', 'r is Some ==> r == Some(Ok::<Obj, NErr>(Obj::Num(NNum::Int(old(self).0))))'),
                  ('advances_by_step', 'r is Some ==> (final(self).0@ == old(self).0@ + old(self).2@ && final(self).1 == old(self).1 && final(self).2 == old(self).2)'),
                  ('exhausted_range_is_unchanged', 'r is None ==> *final(self) == *old(self)')],
         props=['C11']),
    Item(id='peek', source=S, locator='impl Stream for Range / fn peek', wrap=REHOME,
         ensures=[('none_iff_empty', 'r is None <==> range_empty(self.0@, opt_nint(self.1), self.2@)'),
                  ('agrees_with_next', 'r is Some ==> (r->Some_0 is Ok && r->Some_0->Ok_0 is Num && r->Some_0->Ok_0->Num_0@ == NumV::Int(self.0@))')],
         props=['C11']),
    Item(id='len', source=S, locator='impl Stream for Range / fn len', wrap=REHOME,
         ensures=[('length_is_number_of_elements_iteration_yields',
                   '(self.1 is Some && range_finite(self.0@, self.1->Some_0@, self.2@)) ==> r == opt_in_range_usize(range_count(self.0@, self.1->Some_0@, self.2@) as int)'),
                  ('unbounded_ranges_have_no_length', '(self.1 is None || !range_finite(self.0@, self.1->Some_0@, self.2@)) ==> r is None')],
         props=['C11']),
    Item(id='WrappedVec', kind='type', source='src/core.rs', locator='struct WrappedVec',
         subst=[(r'#\[derive\([^)]*\)\]\s*', '', 'derives dropped')]),
    Item(id='wv_len', source='src/core.rs', locator='impl<T: Clone + Into<Obj> + Display + Debug + \'static + MaybeSync + MaybeSend> Stream for WrappedVec<T> / fn len',
         wrap='impl<T> WrappedVec<T>',
         ensures=[('remaining_elements', 'r == Some(if self.0.len() >= self.1 { (self.0.len() - self.1) as usize } else { 0usize })')], props=['C11']),
    Item(id='wv_next', source='src/core.rs', locator='impl<T: Clone + Into<Obj>> Iterator for WrappedVec<T> / fn next',
         wrap='impl<T: Clone + Into<Obj>> WrappedVec<T>',
         ensures=[('none_iff_exhausted', 'r is None <==> old(self).1 >= old(self).0.len()'),
                  ('advances_by_one', 'r is Some ==> (final(self).1 == old(self).1 + 1 && final(self).0 == old(self).0)'),
                  ('length_decreases_by_one', 'r is Some ==> final(self).0.len() - final(self).1 == old(self).0.len() - old(self).1 - 1'),
                  ('exhausted_is_unchanged', 'r is None ==> *final(self) == *old(self)')], props=['C11']),
    # infinite cycle: the struct invariant (non-empty, offset in range) is established by the `cycle` builtin (bounded grid) and preserved here
    Item(id='Cycle', kind='type', source=S, locator='struct Cycle', subst=[(r'#\[derive\([^)]*\)\]\s*', '', 'derives dropped')]),
    Item(id='cycle_next', source=S, locator='impl Iterator for Cycle / fn next', wrap='impl Cycle',
         requires=[('nonempty_offset_in_range', 'old(self).0.len() > 0 && old(self).1 < old(self).0.len()')],
         ensures=[('yields_current_element', 'r == Some(Ok::<Obj, NErr>(old(self).0@[old(self).1 as int]))'),
                  ('advances_cyclically', 'final(self).1 == (old(self).1 + 1) % (old(self).0.len() as int) && final(self).0 == old(self).0'),
                  ('invariant_preserved', 'final(self).1 < final(self).0.len()')], props=['C11']),
    Item(id='cycle_peek', source=S, locator='impl Stream for Cycle / fn peek', wrap='impl Cycle',
         requires=[('nonempty_offset_in_range', 'self.0.len() > 0 && self.1 < self.0.len()')],
         ensures=[('agrees_with_next', 'r == Some(Ok::<Obj, NErr>(self.0@[self.1 as int]))')], props=['C11']),
    Item(id='cycle_index', source=S, locator='impl Stream for Cycle / fn pythonic_index_isize', wrap='impl Cycle',
         requires=[('nonempty_offset_in_range', 'self.0.len() > 0 && self.1 < self.0.len() && self.0.len() <= isize::MAX')],
         ensures=[('element_at_offset_plus_index_modulo_len', 'r == Ok::<Obj, NErr>(self.0@[(self.1 as int + i as int) % (self.0.len() as int)])')],
         props=['C11', 'C10']),
    Item(id='cycle_len', source=S, locator='impl Stream for Cycle / fn len', wrap='impl Cycle',
         ensures=[('infinite', 'r is None')], props=['C11']),
    Item(id='cycle_force', source=S, locator='impl Stream for Cycle / fn force', wrap='impl Cycle',
         ensures=[('cannot_be_forced', 'r is Err && err_class(r->Err_0) == ErrClass::Value')], props=['C11']),
    # repeat(x): the infinite constant stream
    Item(id='Repeat', kind='type', source=S, locator='struct Repeat', subst=[(r'#\[derive\([^)]*\)\]\s*', '#[derive(Clone)]\n', 'derives reduced to Clone')]),
    Item(id='repeat_next', source=S, locator='impl Iterator for Repeat / fn next', wrap='impl Repeat',
         ensures=[('always_the_element', 'r == Some(Ok::<Obj, NErr>(old(self).0))'), ('unchanged', '*final(self) == *old(self)')], props=['C11']),
    Item(id='repeat_peek', source=S, locator='impl Stream for Repeat / fn peek', wrap='impl Repeat',
         ensures=[('agrees_with_next', 'r == Some(Ok::<Obj, NErr>(self.0))')], props=['C11']),
    Item(id='repeat_len', source=S, locator='impl Stream for Repeat / fn len', wrap='impl Repeat',
         ensures=[('infinite', 'r is None')], props=['C11']),
    Item(id='repeat_force', source=S, locator='impl Stream for Repeat / fn force', wrap='impl Repeat',
         ensures=[('cannot_be_forced', 'r is Err && err_class(r->Err_0) == ErrClass::Value')], props=['C11']),
    Item(id='repeat_index', source=S, locator='impl Stream for Repeat / fn pythonic_index_isize', wrap='impl Repeat',
         subst=[(r'\(&self, _: isize\)', '(&self, _i: isize)', 'the verus! macro rejects `_` as a parameter name')],
         ensures=[('every_index_is_the_element', 'r == Ok::<Obj, NErr>(self.0)')], props=['C11', 'C10']),
    Item(id='repeat_slice', source=S, locator='impl Stream for Repeat / fn pythonic_slice', wrap='impl Repeat',
         subst=[(r'Rc::new\(self\.clone\(\)\)', 'stream_rc(self.clone())', 'the unsizing coercion Rc<Repeat> -> Rc<dyn Stream> has no counterpart for the opaque StreamBox')],
         closures={1: dict(params='x: isize', ret='res: NRes<isize>',
                           ensures=[('negative_bounds_move_one_further_from_the_end', 'match res { Ok(v) => v == (if x < 0 { x - 1 } else { x as int }), Err(e) => x == isize::MIN && err_class(e) == ErrClass::Index }')])},
         ensures=[
             ('a_bound_of_isize_min_is_an_index_error', '(lo == Some(isize::MIN) || hi == Some(isize::MIN)) ==> (r is Err && err_class(r->Err_0) == ErrClass::Index)'),
             ('both_bounds_from_the_same_end_give_that_many_copies',
              '(rep_ok(lo, hi) && (rep_bound(lo, 0) < 0) == (rep_bound(hi, -1) < 0)) ==> (r is Ok && r->Ok_0 is List && '
              'r->Ok_0->List_0@.len() == (if rep_bound(hi, -1) - rep_bound(lo, 0) > 0 { rep_bound(hi, -1) - rep_bound(lo, 0) } else { 0 }))'),
             ('from_the_end_to_the_front_is_empty', '(rep_ok(lo, hi) && rep_bound(lo, 0) < 0 && rep_bound(hi, -1) >= 0) ==> (r is Ok && r->Ok_0 is List && r->Ok_0->List_0@.len() == 0)'),
             ('from_the_front_to_the_infinite_end_is_a_stream', '(rep_ok(lo, hi) && rep_bound(lo, 0) >= 0 && rep_bound(hi, -1) < 0) ==> (r is Ok && r->Ok_0 is Stream)'),
         ],
         props=['C11', 'C10']),
]

GENERATED_SPECS = {"range_bcast.rs": "verus! {\nbroadcast use lemma_range_count_closed_form, lemma_mod_add_reduced;\n}\n",
 'range_specimpls.rs': """verus! {
impl vstd::std_specs::convert::FromSpecImpl<NInt> for Obj {
    open spec fn obeys_from_spec() -> bool { false }
    open spec fn from_spec(v: NInt) -> Obj { arbitrary() }
}
} // verus!
"""}
