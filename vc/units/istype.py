"""C12 kernel: the type predicate `is_type` (eval.rs) against `type_of` (core.rs)."""
from assemble import Item

NAME = 'istype'
PRELUDE = ['base', 'bigint', 'float', 'rational', 'opaque']
SPECS = ['istype.rs']
DEPS = ['nint', 'nnum', 'coretypes']
NEEDS_EXPANDED = True

ITEMS = [
    Item(id='type_of', source='src/core.rs', locator='fn type_of',
         ensures=[('classifies_by_constructor', 'r == type_of_spec(*obj)')], props=['C12']),
    Item(id='is_type', source='src/eval.rs', locator='fn is_type',
         requires=[('not_a_satisfying_type', '!(ty is Satisfying)')],
         ensures=[('never_fails_on_builtin_types', 'r is Ok'),
                  ('value_is_of_its_own_type', '*ty == type_of_spec(*arg) ==> r == Ok::<bool, NErr>(true)'),
                  ('anything_accepts_all', '*ty is Any ==> r == Ok::<bool, NErr>(true)'),
                  ('number_accepts_every_numeric_level', '(*ty is Number && *arg is Num) ==> r == Ok::<bool, NErr>(true)'),
                  ('builtin_types_classify_by_constructor',
                   '(builtin_simple(*ty) && builtin_simple(type_of_spec(*arg))) ==> r == Ok::<bool, NErr>(type_accepts(*ty, type_of_spec(*arg)))'),
                  ('struct_type_by_id', '(*ty is Struct && *arg is Instance) ==> r == Ok::<bool, NErr>(ty->Struct_0.id == arg->Instance_0.id)')],
         props=['C12']),
]
