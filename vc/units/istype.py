"""C12 kernel: the type predicate `is_type` (eval.rs) against `type_of` (core.rs)."""
from assemble import Item

NAME = 'istype'
PRELUDE = ['base', 'bigint', 'float', 'rational', 'opaque']
SPECS = ['istype.rs']
DEPS = ['nint', 'nnum', 'coretypes']
NEEDS_EXPANDED = True

ITEMS = [
    Item(id='type_of', source='src/core.rs', locator='fn type_of',
         ensures=[('classifies_by_constructor', 'r == type_of_spec(*obj)')], props=['C12']),
    Item(id='is_type', source='src/eval.rs', locator='fn is_type',
         requires=[('not_a_satisfying_type', '!(ty is Satisfying)')],
         ensures=[('never_fails_on_builtin_types', 'r is Ok'),
                  ('value_is_of_its_own_type', '*ty == type_of_spec(*arg) ==> r == Ok::<bool, NErr>(true)'),
                  ('anything_accepts_all', '*ty is Any ==> r == Ok::<bool, NErr>(true)'),
                  ('number_accepts_every_numeric_level', '(*ty is Number && *arg is Num) ==> r == Ok::<bool, NErr>(true)'),
                  ('builtin_types_classify_by_constructor',
                   '(builtin_simple(*ty) && builtin_simple(type_of_spec(*arg))) ==> r == Ok::<bool, NErr>(type_accepts(*ty, type_of_spec(*arg)))'),
                  ('struct_type_by_id', '(*ty is Struct && *arg is Instance) ==> r == Ok::<bool, NErr>(ty->Struct_0.id == arg->Instance_0.id)')],
         props=['C12']),
    # struct construction: the arguments followed by the defaults of the remaining fields; a missing field without default raises
    Item(id='call_type', source='src/core.rs', locator='fn call_type',
         ensures=[
             ('instance_of_that_struct_with_every_field', '(ty is Struct && r is Ok) ==> (r->Ok_0 is Instance && r->Ok_0->Instance_0 == ty->Struct_0 && '
              'r->Ok_0->Instance_1@.len() >= ty->Struct_0.fields@.len())'),
             ('arguments_first_then_defaults', '(ty is Struct && r is Ok) ==> (forall|i: int| 0 <= i < r->Ok_0->Instance_1@.len() ==> '
              '(#[trigger] r->Ok_0->Instance_1@[i]) == (if i < args@.len() { args@[i] } else { ty->Struct_0.fields@[i].1->Some_0 }))'),
             ('ok_iff_the_missing_fields_have_defaults', 'ty is Struct ==> (r is Ok <==> struct_fill_ok(ty->Struct_0.fields@, args@.len() as int))'),
             ('a_missing_field_is_an_argument_error', '(ty is Struct && r is Err) ==> err_class(r->Err_0) == ErrClass::Argument'),
         ],
         attrs=['#[verifier::loop_isolation(false)]'],
         hints=[(r'args\.reserve_exact', 'let ghost args0 = args@;', 'before')],
         loops={1: dict(invariant=[('filled_so_far', 'args@.len() >= args0.len() && (forall|i: int| 0 <= i < args@.len() ==> (#[trigger] args@[i]) == (if i < args0.len() { args0[i] } else { s.fields@[i].1->Some_0 })) && '
                                    '(forall|i: int| args0.len() <= i < args@.len() && i < s.fields@.len() ==> (#[trigger] s.fields@[i]).1 is Some)')],
                        decreases='s.fields@.len() - args@.len()')},
         props=['C12']),
    Item(id='name_error', source='src/core.rs', locator='impl NErr / fn name_error',
         ensures=[('is_a_thrown_error', 'err_class(r) == ErrClass::Throw')], props=['C12']),
    # `x: T := v` / `x: T = v` on a new name: the annotation is checked at declaration (C12), then the variable is created with its type
    Item(id='insert_declare', source='src/eval.rs', locator='fn insert_declare',
         requires=[('not_a_satisfying_type', '!(ty is Satisfying)')],
         ensures=[
             ('an_ill_typed_declaration_is_refused', '(builtin_simple(ty) && builtin_simple(type_of_spec(rhs)) && !type_accepts(ty, type_of_spec(rhs))) ==> (r is Err && err_class(r->Err_0) == ErrClass::Throw)'),
             ('a_struct_annotation_refuses_other_structs', '(ty is Struct && rhs is Instance && ty->Struct_0.id != rhs->Instance_0.id) ==> (r is Err && err_class(r->Err_0) == ErrClass::Throw)'),
             ('a_well_typed_declaration_creates_the_variable_with_its_type',
              '(((builtin_simple(ty) && builtin_simple(type_of_spec(rhs)) && type_accepts(ty, type_of_spec(rhs))) || (ty is Struct && rhs is Instance && ty->Struct_0.id == rhs->Instance_0.id)) '
              '&& env_borrowable(*env)) ==> r == env_insert_spec(s@, ty, rhs)'),
         ],
         props=['C12']),
]
