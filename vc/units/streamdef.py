"""C11 / C10: the default methods of `trait Stream` (core.rs) - len, pythonic_index_isize, pythonic_slice, reversed - verbatim, with
`Self` / `Box<dyn Stream>` standing for an arbitrary lawful finite stream (specs/streamdef.rs: AnyStream)."""
from assemble import Item

NAME = 'streamdef'
PRELUDE = ['base', 'bigint', 'float', 'rational', 'opaque']
SPECS = ['seqlib.rs', 'index.rs', 'streamdef.rs']
DEPS = ['nint', 'nnum', 'coretypes', 'objctors', 'index']
NEEDS_EXPANDED = True

C = 'src/core.rs'
W = 'impl AnyStream'
NOISO = '#[verifier::loop_isolation(false)]'
FIN = ('stream_is_finite_and_lawful', 'finite_iter(*self)')

ITEMS = [
    Item(id='len', source=C, locator='trait Stream / fn len', wrap=W,
         requires=[FIN, ('count_fits_usize', 'self.remaining().len() <= usize::MAX')],
         ensures=[('counts_the_items_iteration_yields', 'r == Some(self.remaining().len() as usize)')],
         attrs=[NOISO],
         loops={1: dict(invariant=[('counted_so_far', 'finite_iter(s) && ret + s.remaining().len() == self.remaining().len()')], decreases='s.decrease()->Some_0')},
         props=['C11']),
    Item(id='pythonic_index_isize', source=C, locator='trait Stream / fn pythonic_index_isize', wrap=W,
         requires=[FIN, ('count_fits_isize', 'self.remaining().len() <= isize::MAX')],
         ensures=[
             ('nonnegative_index_is_the_item_iteration_reaches', '(0 <= i0 < self.remaining().len()) ==> r == self.remaining()[i0 as int]'),
             ('nonnegative_index_past_the_end_is_an_index_error', '(i0 >= self.remaining().len()) ==> (r is Err && err_class(r->Err_0) == ErrClass::Index)'),
             # an index below -len relies on the wrapping `as usize` of a negative isize, which Verus leaves unspecified: bounded grid only
             ('negative_index_counts_from_the_end', '(i0 < 0 && all_ok(self.remaining()) && -(self.remaining().len() as int) <= i0) ==> '
              'r == Ok::<Obj, NErr>(oks(self.remaining())[self.remaining().len() + i0])'),
             ('negative_index_forces_the_stream', '(i0 < 0 && !all_ok(self.remaining())) ==> r is Err'),
         ],
         attrs=[NOISO],
         loops={1: dict(invariant=[('skipped_so_far', 'finite_iter(it) && 0 <= i <= i0 && (i0 - i) + it.remaining().len() == self.remaining().len() && '
                                    'self.remaining().skip((i0 - i) as int) =~= it.remaining()')], decreases='it.decrease()->Some_0')},
         props=['C11', 'C10']),
    Item(id='reversed', source=C, locator='trait Stream / fn reversed', wrap=W, requires=[FIN],
         ensures=[('forced_then_reversed', 'all_ok(self.remaining()) ==> (r is Ok && r->Ok_0 is List && r->Ok_0->List_0@ == oks(self.remaining()).reverse())'),
                  ('an_item_error_is_raised', '!all_ok(self.remaining()) ==> r is Err')],
         props=['C11']),
    # Stream::pythonic_slice is not under contract: its negative-bound arm uses Vec::drain(..).collect(), for which this vstd has no specification
]
