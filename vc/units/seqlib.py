"""C13: the kind-independent sequence helpers of lib.rs (reversed, prefixes, reversed_prefixes, grouped, windowed, ...), verbatim, proved
against their one-line definitions over vstd's iterator model."""
from assemble import Item

NAME = 'seqlib'
PRELUDE = ['base', 'bigint', 'float', 'rational', 'opaque']
SPECS = ['seqlib.rs']
DEPS = ['nint', 'nnum', 'coretypes']
NEEDS_EXPANDED = True

L = 'src/lib.rs'
P = ['C13']
FIN = ('iterator_is_finite_and_lawful', 'finite_iter(it)')

NOISO = '#[verifier::loop_isolation(false)]'
# the item just taken from the iterator is the k-th item of the original iterator; an Err item means not all items are Ok
ITEM_K = 'proof { let k = (%s) as int; assert(all.skip(k)[0] == all[k]); assert(obj == all[k]); if obj is Err { assert(!all_ok(all)); } }'
# k items consumed so far, all of them Ok; the iterator holds the rest
CONSUMED = ('finite_iter(it) && (%(k)s) + it.remaining().len() == all.len() && all.skip((%(k)s) as int) =~= it.remaining() && '
            'all_ok(all.take((%(k)s) as int))')

ITEMS = [
    Item(id='reversed', source=L, locator='fn reversed',
         ensures=[('reverses', 'r is Ok && r->Ok_0@ == v@.reverse()')], props=P),
    Item(id='prefixes', source=L, locator='fn prefixes', requires=[FIN],
         ensures=[
             ('one_prefix_per_length', 'all_ok(it.remaining()) ==> (r is Ok && r->Ok_0@.len() == it.remaining().len() + 1)'),
             ('prefix_i_is_the_first_i_items', 'all_ok(it.remaining()) ==> (forall|i: int| 0 <= i <= it.remaining().len() ==> seq_cloned(oks(it.remaining()).take(i), (#[trigger] r->Ok_0@[i])@))'),
             ('an_item_error_is_raised', '!all_ok(it.remaining()) ==> r is Err'),
         ],
         attrs=[NOISO],
         hints=[(r'let mut prefix = Vec::new\(\);', 'let ghost all = it.remaining();', 'before'),
                ('loop1:body_start', ITEM_K % 'prefix@.len()', 'at'),
                (r'Ok\(acc\)', 'proof { assert(prefix@.len() == all.len()); assert(all.take(all.len() as int) =~= all); }', 'before')],
         loops={1: dict(invariant=[
             ('prefixes_so_far', CONSUMED % dict(k='prefix@.len()') + ' && prefix@ =~= oks(all).take(prefix@.len() as int) && acc@.len() == prefix@.len() + 1 && '
              '(forall|i: int| 0 <= i <= prefix@.len() ==> seq_cloned(oks(all).take(i), (#[trigger] acc@[i])@))')],
             decreases='it.decrease()->Some_0')},
         props=P),
    Item(id='reversed_prefixes', source=L, locator='fn reversed_prefixes', requires=[FIN],
         ensures=[
             ('one_prefix_per_length', 'all_ok(it.remaining()) ==> (r is Ok && r->Ok_0@.len() == it.remaining().len() + 1)'),
             ('entry_i_is_the_first_i_items_reversed', 'all_ok(it.remaining()) ==> (forall|i: int| 0 <= i <= it.remaining().len() ==> seq_cloned(oks(it.remaining()).take(i).reverse(), (#[trigger] r->Ok_0@[i])@))'),
             ('an_item_error_is_raised', '!all_ok(it.remaining()) ==> r is Err'),
         ],
         attrs=[NOISO],
         hints=[(r'let mut prefix = Vec::new\(\);', 'let ghost all = it.remaining();', 'before'),
                ('loop1:body_start', ITEM_K % 'prefix@.len()', 'at'),
                (r'Ok\(acc\)', 'proof { assert(prefix@.len() == all.len()); assert(all.take(all.len() as int) =~= all); }', 'before')],
         loops={1: dict(invariant=[
             ('prefixes_so_far', CONSUMED % dict(k='prefix@.len()') + ' && prefix@ =~= oks(all).take(prefix@.len() as int) && acc@.len() == prefix@.len() + 1 && '
              '(forall|i: int| 0 <= i <= prefix@.len() ==> seq_cloned(oks(all).take(i).reverse(), (#[trigger] acc@[i])@))')],
             decreases='it.decrease()->Some_0')},
         props=P),
    Item(id='take_while_inner', source=L, locator='fn take_while_inner', requires=[FIN],
         ensures=[
             ('longest_passing_prefix', 'r is Ok ==> take_while_ok(f, it.remaining(), r->Ok_0@, r->Ok_0@.len() as int)'),
             ('a_predicate_error_is_raised_after_a_passing_prefix', 'r is Err ==> exists|n: int| #[trigger] fails_at(f, it.remaining(), n, r->Err_0)'),
         ],
         attrs=[NOISO],
         hints=[(r'let mut acc = Vec::new\(\);', 'let ghost all = it.remaining();', 'before'),
                ('loop1:body_start', '''proof {
    let k = acc@.len() as int;
    assert(all.skip(k)[0] == all[k]); assert(x == all[k]);
    assert forall|o: Obj| shown_as(x, o) && (#[trigger] run_spec(f, seq![o])) is Err implies fails_at(f, all, k, run_spec(f, seq![o])->Err_0) by {}
}''', 'at'),
                (r'return Ok\(acc\);', 'proof { assert(take_while_ok(f, all, acc@, acc@.len() as int)); }', 'before'),
                ('loop1:after', 'proof { assert(all.take(all.len() as int) =~= all); assert(take_while_ok(f, all, acc@, acc@.len() as int)); }', 'at')],
         loops={1: dict(invariant=[
             ('accepted_prefix', 'finite_iter(it) && acc@.len() + it.remaining().len() == all.len() && all.skip(acc@.len() as int) =~= it.remaining() && '
              'acc@ =~= all.take(acc@.len() as int) && all_pass(f, all, acc@.len() as int)')],
             decreases='it.decrease()->Some_0')},
         props=P),
    Item(id='filtered', source=L, locator='fn filtered',
         ensures=[
             ('keeps_exactly_the_elements_whose_test_differs_from_neg_in_order', 'r is Ok ==> filter_rel(f, neg, v@, r->Ok_0@)'),
             ('a_predicate_error_is_raised', 'r is Err ==> exists|n: int| #[trigger] test_fails_at(f, v@, n, r->Err_0)'),
         ],
         attrs=[NOISO],
         hints=[('loop1:body_start', '''proof {
    let k = it.index@;
    assert(x == v@[k]);
    assert(v@.take(k + 1).drop_last() =~= v@.take(k));
    assert(v@.take(k + 1).last() == x);
    assert forall|o: Obj| shown_as(x, o) && (#[trigger] run_spec(f, seq![o])) is Err implies test_fails_at(f, v@, k, run_spec(f, seq![o])->Err_0) by {}
}
let ghost ret0 = ret@;''', 'at'),
                ('loop1:body_end', 'proof { if ret@.len() == ret0.len() + 1 { assert(ret@.drop_last() =~= ret0); } }', 'at'),
                ('loop1:after', 'proof { assert(v@.take(v@.len() as int) =~= v@); }', 'at')],
         loops={1: dict(iter_name='it', invariant=[
             ('filtered_prefix', 'it.seq() == v@ && all_tested(f, v@, it.index@) && filter_rel(f, neg, v@.take(it.index@), ret@)')])},
         props=P),
]
