"""C13: the kind-independent sequence helpers of lib.rs (reversed, prefixes, reversed_prefixes, grouped, windowed, ...), verbatim, proved
against their one-line definitions over vstd's iterator model."""
from assemble import Item

NAME = 'seqlib'
PRELUDE = ['base', 'bigint', 'float', 'rational', 'opaque']
SPECS = ['seqlib.rs']
DEPS = ['nint', 'nnum', 'coretypes']
NEEDS_EXPANDED = True

L = 'src/lib.rs'
P = ['C13']
FIN = ('iterator_is_finite_and_lawful', 'finite_iter(it)')

NOISO = '#[verifier::loop_isolation(false)]'
# the item just taken from the iterator is the k-th item of the original iterator; an Err item means not all items are Ok
ITEM_K = 'proof { let k = (%s) as int; assert(all.skip(k)[0] == all[k]); assert(obj == all[k]); if obj is Err { assert(!all_ok(all)); } }'
# k items consumed so far, all of them Ok; the iterator holds the rest
CONSUMED = ('finite_iter(it) && (%(k)s) + it.remaining().len() == all.len() && all.skip((%(k)s) as int) =~= it.remaining() && '
            'all_ok(all.take((%(k)s) as int))')

CNT = '(all.len() - it.remaining().len())'
GROUPED_COMMON = ('finite_iter(it) && n > 0 && 0 <= %(c)s <= all.len() && all.skip(%(c)s) =~= it.remaining() && all_ok(all.take(%(c)s)) && '
                  '(forall|i: int| 0 <= i < acc@.len() ==> (#[trigger] acc@[i])@ == vs.subrange(i * n, i * n + n))') % dict(c=CNT)
GROUPED_OUTER = GROUPED_COMMON + ' && group@.len() == 0 && %s == acc@.len() * n' % CNT
GROUPED_INNER = (GROUPED_COMMON + ' && c0 == acc@.len() * n && %(c)s == c0 + group@.len() && group@.len() < n + 1 && group@ =~= vs.subrange(c0, %(c)s) && '
                 'it.decrease()->Some_0 <= d0 && (group@.len() > 0 ==> it.decrease()->Some_0 < d0) && group@.len() == jt.index@ && jt.seq().len() == n') % dict(c=CNT)

ITEMS = [
    Item(id='reversed', source=L, locator='fn reversed',
         ensures=[('reverses', 'r is Ok && r->Ok_0@ == v@.reverse()')], props=P),
    Item(id='prefixes', source=L, locator='fn prefixes', requires=[FIN],
         ensures=[
             ('one_prefix_per_length', 'all_ok(it.remaining()) ==> (r is Ok && r->Ok_0@.len() == it.remaining().len() + 1)'),
             ('prefix_i_is_the_first_i_items', 'all_ok(it.remaining()) ==> (forall|i: int| 0 <= i <= it.remaining().len() ==> seq_cloned(oks(it.remaining()).take(i), (#[trigger] r->Ok_0@[i])@))'),
             ('an_item_error_is_raised', '!all_ok(it.remaining()) ==> r is Err'),
         ],
         attrs=[NOISO],
         hints=[(r'let mut prefix = Vec::new\(\);', 'let ghost all = it.remaining();', 'before'),
                (r'let mut acc = [^;]+;', 'let ghost _ta: VSeq<Vec<T>> = acc@; let ghost _tp: VSeq<T> = prefix@;', 'after'),
                ('loop1:body_start', ITEM_K % 'prefix@.len()', 'at'),
                (r'Ok\(acc\)', 'proof { assert(prefix@.len() == all.len()); assert(all.take(all.len() as int) =~= all); }', 'before')],
         loops={1: dict(invariant=[
             ('prefixes_so_far', CONSUMED % dict(k='prefix@.len()') + ' && prefix@ =~= oks(all).take(prefix@.len() as int) && acc@.len() == prefix@.len() + 1 && '
              '(forall|i: int| 0 <= i <= prefix@.len() ==> seq_cloned(oks(all).take(i), (#[trigger] acc@[i])@))')],
             decreases='it.decrease()->Some_0')},
         props=P),
    Item(id='reversed_prefixes', source=L, locator='fn reversed_prefixes', requires=[FIN],
         ensures=[
             ('one_prefix_per_length', 'all_ok(it.remaining()) ==> (r is Ok && r->Ok_0@.len() == it.remaining().len() + 1)'),
             ('entry_i_is_the_first_i_items_reversed', 'all_ok(it.remaining()) ==> (forall|i: int| 0 <= i <= it.remaining().len() ==> seq_cloned(oks(it.remaining()).take(i).reverse(), (#[trigger] r->Ok_0@[i])@))'),
             ('an_item_error_is_raised', '!all_ok(it.remaining()) ==> r is Err'),
         ],
         attrs=[NOISO],
         hints=[(r'let mut prefix = Vec::new\(\);', 'let ghost all = it.remaining();', 'before'),
                (r'let mut acc = [^;]+;', 'let ghost _ta: VSeq<Vec<T>> = acc@; let ghost _tp: VSeq<T> = prefix@;', 'after'),
                ('loop1:body_start', ITEM_K % 'prefix@.len()', 'at'),
                (r'Ok\(acc\)', 'proof { assert(prefix@.len() == all.len()); assert(all.take(all.len() as int) =~= all); }', 'before')],
         loops={1: dict(invariant=[
             ('prefixes_so_far', CONSUMED % dict(k='prefix@.len()') + ' && prefix@ =~= oks(all).take(prefix@.len() as int) && acc@.len() == prefix@.len() + 1 && '
              '(forall|i: int| 0 <= i <= prefix@.len() ==> seq_cloned(oks(all).take(i).reverse(), (#[trigger] acc@[i])@))')],
             decreases='it.decrease()->Some_0')},
         props=P),
    Item(id='take_while_inner', source=L, locator='fn take_while_inner', requires=[FIN],
         ensures=[
             ('longest_passing_prefix', 'r is Ok ==> take_while_ok(f, it.remaining(), r->Ok_0@, r->Ok_0@.len() as int)'),
             ('a_predicate_error_is_raised_after_a_passing_prefix', 'r is Err ==> exists|n: int| #[trigger] fails_at(f, it.remaining(), n, r->Err_0)'),
         ],
         attrs=[NOISO],
         hints=[(r'let mut acc = Vec::new\(\);', 'let ghost all = it.remaining();', 'before'),
                ('loop1:body_start', '''proof {
    let k = acc@.len() as int;
    assert(all.skip(k)[0] == all[k]); assert(x == all[k]);
    assert forall|o: Obj| shown_as(x, o) && (#[trigger] run_spec(f, seq![o])) is Err implies fails_at(f, all, k, run_spec(f, seq![o])->Err_0) by {}
}''', 'at'),
                (r'return Ok\(acc\);', 'proof { assert(take_while_ok(f, all, acc@, acc@.len() as int)); }', 'before'),
                ('loop1:after', 'proof { assert(all.take(all.len() as int) =~= all); assert(take_while_ok(f, all, acc@, acc@.len() as int)); }', 'at')],
         loops={1: dict(invariant=[
             ('accepted_prefix', 'finite_iter(it) && acc@.len() + it.remaining().len() == all.len() && all.skip(acc@.len() as int) =~= it.remaining() && '
              'acc@ =~= all.take(acc@.len() as int) && all_pass(f, all, acc@.len() as int)')],
             decreases='it.decrease()->Some_0')},
         props=P),
    Item(id='filtered', source=L, locator='fn filtered',
         ensures=[
             ('keeps_exactly_the_elements_whose_test_differs_from_neg_in_order', 'r is Ok ==> filter_rel(f, neg, v@, r->Ok_0@)'),
             ('a_predicate_error_is_raised', 'r is Err ==> exists|n: int| #[trigger] test_fails_at(f, v@, n, r->Err_0)'),
         ],
         attrs=[NOISO],
         hints=[('loop1:body_start', '''proof {
    let k = it.index@;
    assert(x == v@[k]);
    assert(v@.take(k + 1).drop_last() =~= v@.take(k));
    assert(v@.take(k + 1).last() == x);
    assert forall|o: Obj| shown_as(x, o) && (#[trigger] run_spec(f, seq![o])) is Err implies test_fails_at(f, v@, k, run_spec(f, seq![o])->Err_0) by {}
}
let ghost ret0 = ret@;''', 'at'),
                ('loop1:body_end', 'proof { if ret@.len() == ret0.len() + 1 { assert(ret@.drop_last() =~= ret0); } }', 'at'),
                ('loop1:after', 'proof { assert(v@.take(v@.len() as int) =~= v@); }', 'at')],
         loops={1: dict(iter_name='it', invariant=[
             ('filtered_prefix', 'it.seq() == v@ && all_tested(f, v@, it.index@) && filter_rel(f, neg, v@.take(it.index@), ret@)')])},
         props=P),
    Item(id='grouped', source=L, locator='fn grouped', requires=[FIN, ('group_size_is_positive', 'n > 0')],
         ensures=[
             ('chunks_of_n', '(all_ok(it.remaining()) && !(strict && (it.remaining().len() as int) % (n as int) != 0)) ==> (r is Ok && chunks_ok(oks(it.remaining()), n as int, r->Ok_0@))'),
             ('strict_leftover_is_an_argument_error', '(all_ok(it.remaining()) && strict && (it.remaining().len() as int) % (n as int) != 0) ==> (r is Err && err_class(r->Err_0) == ErrClass::Argument)'),
             ('an_item_error_is_raised', '!all_ok(it.remaining()) ==> r is Err'),
         ],
         attrs=[NOISO],
         hints=[(r'let mut acc = Vec::new\(\);', 'let ghost all = it.remaining(); let ghost vs = oks(all);', 'before'),
                (r'let mut group = Vec::new\(\);', 'let ghost _ta: VSeq<Vec<T>> = acc@; let ghost _tg: VSeq<T> = group@;', 'after'),
                ('loop1:body_start', 'let ghost d0 = it.decrease()->Some_0; let ghost c0: int = all.len() - it.remaining().len();', 'at'),
                ('loop2:body_start', '''proof {
    let k: int = all.len() - it.remaining().len();
    let more = it.remaining().len() > 0;
    assert(more ==> all.skip(k)[0] == all[k]);
    assert((more && all[k] is Err) ==> !all_ok(all));
    assert(more ==> all.take(k + 1).drop_last() =~= all.take(k));
    assert(more ==> vs.subrange(c0, k + 1).drop_last() =~= vs.subrange(c0, k));
    assert(more ==> vs[k] == all[k]->Ok_0);
}''', 'at'),
                (r'if !group\.is_empty\(\) \{', 'let ghost q0 = acc@.len() as int; let ghost g0 = group@;', 'before'),
                (r'return Err\(NErr::argument_error', 'proof { assert(all.take(all.len() as int) =~= all); lemma_mod_of_multiple_plus(acc@.len() as int, group@.len() as int, n as int); }', 'before'),
                (r'acc\.push\(group\);', 'proof { assert(all.take(all.len() as int) =~= all); lemma_mod_of_multiple_plus(acc@.len() as int, group@.len() as int, n as int); assert((acc@.len() + 1) * n == acc@.len() * n + n) by (nonlinear_arith); }', 'before'),
                (r'return Ok\(acc\);', '''proof {
    assert(all.take(all.len() as int) =~= all);
    if g0.len() == 0 { lemma_mod_of_multiple_plus(q0, 0, n as int); }
    assert forall|i: int| 0 <= i < acc@.len() implies (#[trigger] acc@[i])@ == vs.subrange(i * n, if i * n + n <= vs.len() { i * n + n } else { vs.len() as int }) by {
        if i < q0 {
            assert((i + 1) * n <= q0 * n) by (nonlinear_arith) requires i + 1 <= q0, n > 0;
            assert((i + 1) * n == i * n + n) by (nonlinear_arith);
        } else {
            assert(i == q0);
            assert(acc@[i]@ == g0);
        }
    }
}''', 'before'),
                (r'acc\.push\(std::mem::take\(&mut group\)\)', 'proof { assert((acc@.len() + 1) * n == acc@.len() * n + n) by (nonlinear_arith); assert(group@.len() == n); }', 'before'),
                ],
         loops={1: dict(invariant=[('whole_chunks_so_far', GROUPED_OUTER)], decreases='it.decrease()->Some_0'),
                2: dict(iter_name='jt', invariant=[('chunk_in_progress', GROUPED_INNER)])},
         props=P),
    # window n: one window per start position, each the n consecutive items from there (n > 0 is established by the `window` builtin, the only caller)
    Item(id='windowed', source=L, locator='fn windowed', requires=[FIN, ('window_size_is_positive', 'n > 0')],
         ensures=[
             ('too_short_gives_no_window', '(all_ok(it.remaining()) && it.remaining().len() < n) ==> (r is Ok && r->Ok_0@.len() == 0)'),
             ('one_window_per_position', '(all_ok(it.remaining()) && it.remaining().len() >= n) ==> (r is Ok && r->Ok_0@.len() == it.remaining().len() - n + 1)'),
             ('window_i_is_the_n_items_from_i', '(all_ok(it.remaining()) && it.remaining().len() >= n) ==> (r is Ok && forall|i: int| 0 <= i < r->Ok_0@.len() ==> seq_cloned(oks(it.remaining()).subrange(i, i + n), (#[trigger] r->Ok_0@[i])@))'),
             ('an_item_error_is_raised', '!all_ok(it.remaining()) ==> r is Err'),
         ],
         attrs=[NOISO],
         subst=[(r'VecDeque::new\(\)', 'std::collections::VecDeque::<T>::new()', 'path qualification and element type of the deque (the prelude does not import VecDeque)'),
                (r'window\.iter\(\)\.cloned\(\)\.collect\(\)', 'vecdeque_cloned(&window)', 'vstd specifies neither Iterator::cloned nor collect from it: trusted helper with the postcondition "the elements, cloned, in order"')],
         hints=[(r'let mut window = VecDeque::new\(\);', 'let ghost all = it.remaining(); let ghost vs = oks(all);', 'before'),
                ('loop1:body_start', '''proof {
    let k = window@.len() as int;
    let more = it.remaining().len() > 0;
    assert(more ==> all.skip(k)[0] == all[k]);
    assert(more ==> it.remaining()[0] == all[k]);
    assert((more && all[k] is Err) ==> !all_ok(all));
    assert(more ==> all.take(k + 1).drop_last() =~= all.take(k));
    assert(more ==> vs.take(k + 1) =~= vs.take(k).push(all[k]->Ok_0));
    assert(!more ==> all.take(all.len() as int) =~= all);
}''', 'at'),
                ('loop1:after', 'proof { assert(window@.len() == n); assert(vs.take(n as int) =~= vs.subrange(0, n as int)); }', 'at'),
                ('loop2:body_start', '''proof {
    let k: int = all.len() - it.remaining().len() - 1;
    assert(all.skip(k)[0] == all[k]);
    assert(next == all[k]);
    if next is Err { assert(!all_ok(all)); }
    assert(all.take(k + 1).drop_last() =~= all.take(k));
    assert(vs.subrange(k - n + 1, k + 1) =~= vs.subrange(k - n, k).skip(1).push(all[k]->Ok_0));
}''', 'at'),
                (r'Ok\(acc\)', 'proof { assert(all.take(all.len() as int) =~= all); }', 'before')],
         loops={1: dict(iter_name='jt', invariant=[
                    ('window_filling', 'finite_iter(it) && n > 0 && window@.len() == jt.index@ && jt.seq().len() == n && window@.len() + it.remaining().len() == all.len() && '
                     'all.skip(window@.len() as int) =~= it.remaining() && all_ok(all.take(window@.len() as int)) && window@ =~= vs.take(window@.len() as int) && vs == oks(all)')]),
                2: dict(invariant=[
                    ('one_window_per_position_so_far', 'finite_iter(it) && n > 0 && vs == oks(all) && n <= %(c)s <= all.len() && all.skip(%(c)s) =~= it.remaining() && all_ok(all.take(%(c)s)) && '
                     'window@ =~= vs.subrange(%(c)s - n, %(c)s) && acc@.len() == %(c)s - n + 1 && '
                     '(forall|i: int| 0 <= i < acc@.len() ==> seq_cloned(vs.subrange(i, i + n), (#[trigger] acc@[i])@))' % dict(c=CNT))],
                    decreases='it.decrease()->Some_0')},
         props=P),
]
