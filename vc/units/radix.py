"""C16: the radix conversions registered in lib.rs::initialize (`str_radix`, `int_radix`), emitted as functions by rule 3.2-6,
proved against positional notation; plus the two `From` impls they return through."""
from assemble import Item

NAME = 'radix'
PRELUDE = ['base', 'bigint', 'float', 'rational', 'opaque']
SPECS = ['radix.rs', 'radix_from.rs', 'obj_from_bigint.rs', 'arith.rs']
DEPS = ['nint', 'nnum', 'coretypes']
NEEDS_EXPANDED = True

L = 'src/lib.rs'
OO = ['Obj', 'Obj']
P = ['C16']

ARGS_OK = 'P0 is Num && P0->Num_0 is Int && P1 is Num && P1->Num_0 is Int'
N = 'P0->Num_0->Int_0@'
B = 'P1->Num_0->Int_0@'

ITEMS = [
    Item(id='obj_from_string', source='src/core.rs', locator='impl From<String> for Obj / fn from',
         ensures=[('wraps', 'r is Seq && r->Seq_0 is String && *r->Seq_0->String_0 == n')], props=P),
    Item(id='obj_from_bigint', source='src/core.rs', frm='expanded', locator='mod core / impl From<BigInt> for Obj / fn from',
         ensures=[('wraps', 'r is Num && r->Num_0@ == NumV::Int(n@)')], props=P),
    Item(id='str_radix', source=L, locator='(closure)', closure_as_fn=dict(name='str_radix', fname='builtin_str_radix', params=OO, ret='NRes<Obj>'), ret='res',
         ensures=[
             ('writes_the_positional_numeral', '(%s && 2 <= %s <= 36) ==> (res is Ok && res->Ok_0 is Seq && res->Ok_0->Seq_0 is String && is_numeral((*res->Ok_0->Seq_0->String_0)@, %s, %s))' % (ARGS_OK, B, N, B)),
             ('base_out_of_range_is_a_value_error', '(%s && !(2 <= %s <= 36)) ==> (res is Err && err_class(res->Err_0) == ErrClass::Value)' % (ARGS_OK, B)),
             ('other_arguments_raise', '!(%s) ==> res is Err' % ARGS_OK),
         ],
         hints=[
             (r'let neg = a\.is_negative\(\);', 'let ghost n0: int = a@;', 'after'),
             (r'let mut ret = Vec::new\(\);', 'let ghost m0: int = a@; let ghost b0: int = base as int;', 'after'),
             (r'a /= base;', 'proof { lemma_div_smaller(a@, b0); assert(trunc_rem(a@, r@) == a@ % b0); }', 'before', 'optional'),
             ('loop1:after', '''let ghost lsf = ret@;
proof {
    assert(digits_lsf(a@, b0) =~= VSeq::<char>::empty());
    assert(lsf =~= digits_lsf(m0, b0));
}''', 'at'),
             (r'Ok\(Obj::from\(', '''proof {
    // what the statements between the loop and here must have produced, written independently of them
    let body = if m0 == 0 { seq!['0'] } else { lsf };
    let pre = if neg { body.push('-') } else { body };
    if m0 == 0 {
        assert(body.reverse() =~= body);
        assert(body.drop_last().len() == 0);
        assert(radix_value(body.drop_last(), b0) == 0);
        assert(radix_value(body, b0) == radix_value(body.drop_last(), b0) * b0 + digit_val(body.last()).unwrap_or(0));
        lemma_digit_char_val(0);
    } else {
        lemma_lsf_is_positional(m0, b0);
    }
    assert(is_numeral_body(body.reverse(), m0, b0));
    if neg {
        assert(pre.reverse()[0] == '-');
        assert(pre.reverse().subrange(1, pre.len() as int) =~= body.reverse());
    } else {
        assert(pre.reverse() =~= body.reverse());
    }
    assert(is_numeral(pre.reverse(), n0, b0));
    assert(ret@ =~= pre.reverse());
}''', 'before'),
         ],
         loops={1: dict(invariant=[('digits_so_far_then_the_rest', 'a@ >= 0 && m0 >= 0 && b0 == base && r@ == base && 2 <= base <= 36 && ret@.add(digits_lsf(a@, b0)) =~= digits_lsf(m0, b0)')],
                        decreases='a@')},
         subst=[(r'ret\.into_iter\(\)\.collect::<String>\(\)', 'string_of_chars(ret)', 'collect::<String>() has no vstd specification; replaced by a trusted function with `s@ == v@`')],
         props=P),
    Item(id='int_radix', source=L, locator='(closure)', closure_as_fn=dict(name='int_radix', fname='builtin_int_radix', params=OO, ret='NRes<Obj>'), ret='res',
         ensures=[
             ('string_of_digits_reads_as_its_positional_value',
              '(P1 is Num && P1->Num_0 is Int && 2 <= %(b)s <= 36 && P0 is Seq && P0->Seq_0 is String && all_digits((*P0->Seq_0->String_0)@, %(b)s)) ==> '
              '(res is Ok && res->Ok_0 is Num && res->Ok_0->Num_0@ == NumV::Int(radix_value((*P0->Seq_0->String_0)@, %(b)s)))' % dict(b=B)),
             ('string_with_a_bad_digit_is_a_value_error',
              '(P1 is Num && P1->Num_0 is Int && 2 <= %(b)s <= 36 && P0 is Seq && P0->Seq_0 is String && !all_digits((*P0->Seq_0->String_0)@, %(b)s)) ==> '
              '(res is Err && err_class(res->Err_0) == ErrClass::Value)' % dict(b=B)),
             ('bytes_read_like_the_same_characters',
              '(P1 is Num && P1->Num_0 is Int && 2 <= %(b)s <= 36 && P0 is Seq && P0->Seq_0 is Bytes) ==> '
              '(if all_digits(bytes_as_chars(P0->Seq_0->Bytes_0@), %(b)s) { res is Ok && res->Ok_0 is Num && res->Ok_0->Num_0@ == NumV::Int(radix_value(bytes_as_chars(P0->Seq_0->Bytes_0@), %(b)s)) } '
              'else { res is Err && err_class(res->Err_0) == ErrClass::Value })' % dict(b=B)),
             ('base_out_of_range_is_a_value_error', '(P1 is Num && !(P1->Num_0 is Int && 2 <= %s <= 36)) ==> (res is Err && err_class(res->Err_0) == ErrClass::Value)' % B),
         ],
         attrs=['#[verifier::loop_isolation(false)]'],
         hints=[
             (r'if let Obj::Num\(n\) = r \{', 'let ghost a0 = a; let ghost r0 = r;', 'before'),
             (r'let mut x = BigInt::from\(0\);', 'proof { assert(n == r0->Num_0); assert(n is Int); assert(n->Int_0@ == base as int); } let ghost mut k: int = 0; let ghost mut kb: int = 0;', 'after'),
             ('loop1:body_start', '''proof {
    let k = it.index@;
    assert(c == s@[k]);
    assert(s@.take(k + 1).drop_last() =~= s@.take(k));
    assert(s@.take(k + 1).last() == c);
    assert(s == a0->Seq_0->String_0);
    let bb = base as int; let pv = radix_value(s@.take(k), bb);
    assert(radix_value(s@.take(k + 1), bb) == radix_value(s@.take(k + 1).drop_last(), bb) * bb + digit_val(s@.take(k + 1).last()).unwrap_or(0));
    assert(pv * bb == bb * pv) by (nonlinear_arith);
    if !is_digit(c, base as int) { assert(!is_digit(s@[k], base as int)); assert(!all_digits(s@, base as int)); }
    else { assert forall|i: int| 0 <= i < k + 1 implies is_digit(#[trigger] s@.take(k + 1)[i], base as int) by { if i < k { assert(s@.take(k)[i] == s@.take(k + 1)[i]); } } }
}''', 'before'),
             ('loop1:body_end', 'proof { k = k + 1; assert(x@ == radix_value(s@.take(k), base as int)); assert(all_digits(s@.take(k), base as int)); }', 'after'),
             (r'return Ok\(Obj::from\(x\)\);', 'proof { assert(k == s@.len()); assert(s@.take(s@.len() as int) =~= s@); }', 'before'),
             ('loop2:body_start', '''proof {
    let k = it.index@;
    let cs = bytes_as_chars(b@);
    assert(*c == b@[k]);
    assert(cs[k] == *c as char);
    assert(cs.take(k + 1).drop_last() =~= cs.take(k));
    assert(cs.take(k + 1).last() == *c as char);
    let bb = base as int; let pv = radix_value(cs.take(k), bb);
    assert(radix_value(cs.take(k + 1), bb) == radix_value(cs.take(k + 1).drop_last(), bb) * bb + digit_val(cs.take(k + 1).last()).unwrap_or(0));
    assert(pv * bb == bb * pv) by (nonlinear_arith);
    if !is_digit(*c as char, base as int) { assert(!is_digit(cs[k], base as int)); assert(!all_digits(cs, base as int)); }
    else { assert forall|i: int| 0 <= i < k + 1 implies is_digit(#[trigger] cs.take(k + 1)[i], base as int) by { if i < k { assert(cs.take(k)[i] == cs.take(k + 1)[i]); } } }
}''', 'before'),
             ('loop2:body_end', 'proof { kb = kb + 1; }', 'at'),
             (r'(?<!return )Ok\(Obj::from\(x\)\)', 'proof { assert(kb == b@.len()); assert(bytes_as_chars(b@).take(b@.len() as int) =~= bytes_as_chars(b@)); }', 'before'),
         ],
         loops={1: dict(iter_name='it', invariant=[('value_of_the_prefix_read_so_far',
                        'k == it.index@ && it.seq() == s@ && 2 <= base <= 36 && all_digits(s@.take(it.index@), base as int) && x@ == radix_value(s@.take(it.index@), base as int)')]),
                2: dict(iter_name='it', invariant=[('value_of_the_prefix_read_so_far',
                        'kb == it.index@ && it.seq().len() == b@.len() && (forall|i: int| 0 <= i < b@.len() ==> *it.seq()[i] == b@[i]) && 2 <= base <= 36 && '
                        'all_digits(bytes_as_chars(b@).take(it.index@), base as int) && x@ == radix_value(bytes_as_chars(b@).take(it.index@), base as int)')])},
         props=P),
]
