"""C10: index / slice arithmetic kernels of core.rs (verbatim raw source)."""
from assemble import Item

NAME = 'index'
PRELUDE = ['base', 'bigint', 'float', 'rational', 'opaque']
SPECS = ['index.rs']
DEPS = ['nint', 'nnum', 'coretypes', 'objctors']
NEEDS_EXPANDED = True

LEN_INV = ('slice_len_fits_isize', 'xs.len() <= isize::MAX')

ITEMS = [
    Item(
        id='pythonic_index_isize', source='src/core.rs', locator='fn pythonic_index_isize',
        requires=[LEN_INV],
        ensures=[
            ('ok_iff_python_index_defined', 'r is Ok <==> py_index(xs.len() as int, n as int) is Some'),
            ('ok_value_is_python_index', 'r is Ok ==> Some(r->Ok_0 as int) == py_index(xs.len() as int, n as int)'),
            ('err_is_index_error', 'r is Err ==> err_class(r->Err_0) == ErrClass::Index'),
        ],
        props=['C10'],
    ),
    Item(
        id='clamped_pythonic_index', source='src/core.rs', locator='fn clamped_pythonic_index',
        requires=[LEN_INV],
        ensures=[('value_is_python_clamp', 'r as int == py_clamp(xs.len() as int, i as int)')],
        props=['C10'],
    ),
    Item(
        id='pythonic_slice', source='src/core.rs', locator='fn pythonic_slice',
        requires=[LEN_INV],
        ensures=[
            ('bounds_are_python_slice', '(r.0 as int, r.1 as int) == py_slice(xs.len() as int, opt_isize(lo), opt_isize(hi))'),
            ('lo_le_hi_le_len', 'r.0 <= r.1 <= xs.len()'),
        ],
        props=['C10'],
    ),
    # ---- the same kernels behind an interpreter value as index: non-integers, non-numbers and integers beyond isize raise
    Item(
        id='pythonic_index', source='src/core.rs', locator='fn pythonic_index',
        requires=[LEN_INV],
        ensures=[
            ('ok_iff_integer_with_python_index', 'r is Ok <==> (obj_int(*i) is Some && py_index(xs.len() as int, obj_int(*i)->Some_0) is Some)'),
            ('ok_value_is_python_index', 'r is Ok ==> Some(r->Ok_0 as int) == py_index(xs.len() as int, obj_int(*i)->Some_0)'),
            ('err_is_index_error', 'r is Err ==> err_class(r->Err_0) == ErrClass::Index'),
        ],
        props=['C10'],
    ),
    Item(
        id='obj_to_isize_slice_index', source='src/core.rs', locator='fn obj_to_isize_slice_index',
        ensures=[
            ('absent_bound_stays_absent', 'x is None ==> r == Ok::<Option<isize>, NErr>(None)'),
            ('machine_word_integers_pass_through', '(x is Some && obj_int(*x->Some_0) is Some && isize::MIN <= obj_int(*x->Some_0)->Some_0 <= isize::MAX) ==> r == Ok::<Option<isize>, NErr>(Some(obj_int(*x->Some_0)->Some_0 as isize))'),
            ('everything_else_is_an_index_error', '(x is Some && !(obj_int(*x->Some_0) is Some && isize::MIN <= obj_int(*x->Some_0)->Some_0 <= isize::MAX)) ==> (r is Err && err_class(r->Err_0) == ErrClass::Index)'),
        ],
        props=['C10'],
    ),
    Item(
        id='pythonic_slice_obj', source='src/core.rs', locator='fn pythonic_slice_obj',
        requires=[LEN_INV],
        ensures=[
            ('never_fails_for_machine_word_bounds', '(obj_bound_ok(lo) && obj_bound_ok(hi)) ==> r is Ok'),
            ('bounds_are_python_slice', 'r is Ok ==> (r->Ok_0.0 as int, r->Ok_0.1 as int) == py_slice(xs.len() as int, obj_bound(lo), obj_bound(hi))'),
            ('lo_le_hi_le_len', 'r is Ok ==> r->Ok_0.0 <= r->Ok_0.1 <= xs.len()'),
        ],
        props=['C10'],
    ),
    Item(
        id='cyclic_index', source='src/lib.rs', locator='fn cyclic_index',
        requires=[LEN_INV],
        ensures=[
            ('wraps_around_modulo_len', '(obj_int(*i) is Some && isize::MIN <= obj_int(*i)->Some_0 <= isize::MAX && xs.len() > 0) ==> (r is Ok && r->Ok_0 as int == obj_int(*i)->Some_0 % (xs.len() as int))'),
            ('in_bounds', 'r is Ok ==> r->Ok_0 < xs.len()'),
            ('empty_or_bad_index_is_index_error', 'r is Err ==> err_class(r->Err_0) == ErrClass::Index'),
        ],
        props=['C10'],
    ),
    Item(
        id='safe_index_inner', source='src/lib.rs', locator='fn safe_index_inner',
        ensures=[('some_iff_in_range', 'r == (if obj_int(*i) is Some && 0 <= obj_int(*i)->Some_0 < xs.len() { Some(obj_int(*i)->Some_0 as usize) } else { None })')],
        props=['C10'],
    ),
    Item(
        id='weird_string_as_bytes_index', source='src/eval.rs', locator='fn weird_string_as_bytes_index',
        requires=[('index_in_bounds', 'i < s.len()')],
        props=['C10'],
    ),
    # per-kind element access: list, vector, bytes and string (by UTF-8 byte) all address through pythonic_index_isize
    Item(
        id='linear_index_isize', source='src/lib.rs', locator='fn linear_index_isize',
        requires=[('rust_allocation_limit', 'seq_len_fits_isize(xr)')],
        ensures=[
            ('list_element_at_python_index', 'xr matches Seq::List(xx) ==> (match py_index(xx@.len() as int, i as int) { Some(k) => r == Ok::<Obj, NErr>(xx@[k]), None => r is Err && err_class(r->Err_0) == ErrClass::Index })'),
            ('vector_element_at_python_index', 'xr matches Seq::Vector(x) ==> (match py_index(x@.len() as int, i as int) { Some(k) => r is Ok && r->Ok_0 is Num && r->Ok_0->Num_0@ == x@[k]@, None => r is Err && err_class(r->Err_0) == ErrClass::Index })'),
            ('bytes_element_at_python_index', 'xr matches Seq::Bytes(x) ==> (match py_index(x@.len() as int, i as int) { Some(k) => r == Ok::<Obj, NErr>(Obj::Num(NNum::Int(NInt::Small(x@[k] as i64)))), None => r is Err && err_class(r->Err_0) == ErrClass::Index })'),
            ('string_fails_exactly_out_of_range', 'xr matches Seq::String(s) ==> (r is Ok <==> py_index(str_bytes(*s).len() as int, i as int) is Some)'),
            ('dict_is_not_linear', 'xr is Dict ==> (r is Err && err_class(r->Err_0) == ErrClass::Type)'),
        ],
        props=['C10'],
    ),
    # slicing of every sequence kind goes through pythonic_slice_obj; the sub-slice taken afterwards can never be out of bounds
    Item(
        id='slice_seq', source='src/eval.rs', locator='fn slice_seq',
        requires=[('rust_allocation_limit', 'seq_len_fits_isize(xr)')],
        ensures=[
            ('never_fails_for_machine_word_bounds', '(!(xr is Dict) && !(xr is Stream) && opt_obj_bound_ok(lo) && opt_obj_bound_ok(hi)) ==> r is Ok'),
            ('list_slice_is_python_subrange', '(xr is List && r is Ok) ==> (r->Ok_0 is Seq && r->Ok_0->Seq_0 is List && r->Ok_0->Seq_0->List_0@ =~= xr->List_0@.subrange(py_slice(xr->List_0@.len() as int, opt_obj_bound(lo), opt_obj_bound(hi)).0, py_slice(xr->List_0@.len() as int, opt_obj_bound(lo), opt_obj_bound(hi)).1))'),
            ('list_slice_has_python_length', '(xr is List && r is Ok) ==> (r->Ok_0 is Seq && r->Ok_0->Seq_0 is List && '
             'r->Ok_0->Seq_0->List_0@.len() == py_slice(xr->List_0@.len() as int, opt_obj_bound(lo), opt_obj_bound(hi)).1 - py_slice(xr->List_0@.len() as int, opt_obj_bound(lo), opt_obj_bound(hi)).0)'),
            ('vector_slice_is_python_subrange', '(xr is Vector && r is Ok) ==> (r->Ok_0 is Seq && r->Ok_0->Seq_0 is Vector && forall|k: int| 0 <= k < r->Ok_0->Seq_0->Vector_0@.len() ==> (#[trigger] r->Ok_0->Seq_0->Vector_0@[k])@ == xr->Vector_0@[py_slice(xr->Vector_0@.len() as int, opt_obj_bound(lo), opt_obj_bound(hi)).0 + k]@)'),
            ('vector_slice_has_python_length', '(xr is Vector && r is Ok) ==> (r->Ok_0 is Seq && r->Ok_0->Seq_0 is Vector && '
             'r->Ok_0->Seq_0->Vector_0@.len() == py_slice(xr->Vector_0@.len() as int, opt_obj_bound(lo), opt_obj_bound(hi)).1 - py_slice(xr->Vector_0@.len() as int, opt_obj_bound(lo), opt_obj_bound(hi)).0)'),
            ('bytes_slice_is_python_subrange', '(xr is Bytes && r is Ok) ==> (r->Ok_0 is Seq && r->Ok_0->Seq_0 is Bytes && r->Ok_0->Seq_0->Bytes_0@ =~= xr->Bytes_0@.subrange(py_slice(xr->Bytes_0@.len() as int, opt_obj_bound(lo), opt_obj_bound(hi)).0, py_slice(xr->Bytes_0@.len() as int, opt_obj_bound(lo), opt_obj_bound(hi)).1))'),
            ('bytes_slice_has_python_length', '(xr is Bytes && r is Ok) ==> (r->Ok_0 is Seq && r->Ok_0->Seq_0 is Bytes && '
             'r->Ok_0->Seq_0->Bytes_0@.len() == py_slice(xr->Bytes_0@.len() as int, opt_obj_bound(lo), opt_obj_bound(hi)).1 - py_slice(xr->Bytes_0@.len() as int, opt_obj_bound(lo), opt_obj_bound(hi)).0)'),
            ('dict_cannot_be_sliced', 'xr is Dict ==> (r is Err && err_class(r->Err_0) == ErrClass::Type)'),
        ],
        props=['C10'],
    ),
    # the interpreter's `s[i]`: every linear kind addresses through pythonic_index (so reads agree with Python on every kind)
    Item(
        id='index', source='src/eval.rs', locator='fn index',
        requires=[('rust_allocation_limit', 'xr is Seq ==> seq_len_fits_isize(xr->Seq_0)'),
                  ('struct_ids_are_unique_so_field_accessors_fit_their_instances', 'field_access_wf(xr, ir)')],
        ensures=[
            ('list_element_at_python_index', '(xr is Seq && xr->Seq_0 is List) ==> (match (if obj_int(ir) is Some { py_index(xr->Seq_0->List_0@.len() as int, obj_int(ir)->Some_0) } else { None }) '
             '{ Some(k) => r == Ok::<Obj, NErr>(xr->Seq_0->List_0@[k]), None => r is Err && err_class(r->Err_0) == ErrClass::Index })'),
            ('bytes_element_at_python_index', '(xr is Seq && xr->Seq_0 is Bytes) ==> (match (if obj_int(ir) is Some { py_index(xr->Seq_0->Bytes_0@.len() as int, obj_int(ir)->Some_0) } else { None }) '
             '{ Some(k) => r == Ok::<Obj, NErr>(Obj::Num(NNum::Int(NInt::Small(xr->Seq_0->Bytes_0@[k] as i64)))), None => r is Err && err_class(r->Err_0) == ErrClass::Index })'),
            ('vector_element_at_python_index', '(xr is Seq && xr->Seq_0 is Vector) ==> (match (if obj_int(ir) is Some { py_index(xr->Seq_0->Vector_0@.len() as int, obj_int(ir)->Some_0) } else { None }) '
             '{ Some(k) => r is Ok && r->Ok_0 is Num && r->Ok_0->Num_0@ =~= xr->Seq_0->Vector_0@[k]@, None => r is Err && err_class(r->Err_0) == ErrClass::Index })'),
            ('string_ok_iff_python_index_defined', '(xr is Seq && xr->Seq_0 is String) ==> (r is Ok <==> (obj_int(ir) is Some && py_index(str_bytes(*xr->Seq_0->String_0).len() as int, obj_int(ir)->Some_0) is Some))'),
            ('stream_index_must_be_a_machine_word_integer', '(xr is Seq && xr->Seq_0 is Stream && !(obj_int(ir) is Some && isize::MIN <= obj_int(ir)->Some_0 <= isize::MAX)) ==> (r is Err && err_class(r->Err_0) == ErrClass::Index)'),
        ],
        props=['C10'],
    ),
    # `xs !% i` (cyclic) and `xs !? i` (null instead of an error): the interpreter-level wrappers of the two kernels above
    Item(
        id='obj_cyclic_index', source='src/lib.rs', locator='fn obj_cyclic_index',
        requires=[('rust_allocation_limit', 'xr is Seq ==> seq_len_fits_isize(xr->Seq_0)')],
        ensures=[
            ('list_element_at_index_modulo_len', '(xr is Seq && xr->Seq_0 is List && obj_int(ir) is Some && isize::MIN <= obj_int(ir)->Some_0 <= isize::MAX && xr->Seq_0->List_0@.len() > 0) ==> '
             'r == Ok::<Obj, NErr>(xr->Seq_0->List_0@[obj_int(ir)->Some_0 % (xr->Seq_0->List_0@.len() as int)])'),
            ('bytes_element_at_index_modulo_len', '(xr is Seq && xr->Seq_0 is Bytes && obj_int(ir) is Some && isize::MIN <= obj_int(ir)->Some_0 <= isize::MAX && xr->Seq_0->Bytes_0@.len() > 0) ==> '
             'r == Ok::<Obj, NErr>(Obj::Num(NNum::Int(NInt::Small(xr->Seq_0->Bytes_0@[obj_int(ir)->Some_0 % (xr->Seq_0->Bytes_0@.len() as int)] as i64))))'),
            ('vector_element_at_index_modulo_len', '(xr is Seq && xr->Seq_0 is Vector && obj_int(ir) is Some && isize::MIN <= obj_int(ir)->Some_0 <= isize::MAX && xr->Seq_0->Vector_0@.len() > 0) ==> '
             '(r is Ok && r->Ok_0 is Num && r->Ok_0->Num_0@ == xr->Seq_0->Vector_0@[obj_int(ir)->Some_0 % (xr->Seq_0->Vector_0@.len() as int)]@)'),
            ('empty_sequences_and_bad_indices_raise', '(xr is Seq && (xr->Seq_0 is List || xr->Seq_0 is Bytes || xr->Seq_0 is Vector) && r is Err) ==> err_class(r->Err_0) == ErrClass::Index'),
            ('dictionaries_streams_and_non_sequences_are_type_errors', '(!(xr is Seq) || xr->Seq_0 is Dict || xr->Seq_0 is Stream) ==> (r is Err && err_class(r->Err_0) == ErrClass::Type)'),
        ],
        props=['C10'],
    ),
    Item(
        id='safe_index', source='src/lib.rs', locator='fn safe_index',
        ensures=[
            ('null_stays_null', 'xr is Null ==> r == Ok::<Obj, NErr>(Obj::Null)'),
            ('list_element_or_null', '(xr is Seq && xr->Seq_0 is List) ==> r == Ok::<Obj, NErr>(if obj_int(ir) is Some && 0 <= obj_int(ir)->Some_0 < xr->Seq_0->List_0@.len() '
             '{ xr->Seq_0->List_0@[obj_int(ir)->Some_0] } else { Obj::Null })'),
            ('bytes_element_or_null', '(xr is Seq && xr->Seq_0 is Bytes) ==> r == Ok::<Obj, NErr>(if obj_int(ir) is Some && 0 <= obj_int(ir)->Some_0 < xr->Seq_0->Bytes_0@.len() '
             '{ Obj::Num(NNum::Int(NInt::Small(xr->Seq_0->Bytes_0@[obj_int(ir)->Some_0] as i64))) } else { Obj::Null })'),
            ('vector_element_or_null', '(xr is Seq && xr->Seq_0 is Vector) ==> (r is Ok && (if obj_int(ir) is Some && 0 <= obj_int(ir)->Some_0 < xr->Seq_0->Vector_0@.len() '
             '{ r->Ok_0 is Num && r->Ok_0->Num_0@ == xr->Seq_0->Vector_0@[obj_int(ir)->Some_0]@ } else { r->Ok_0 is Null }))'),
            ('string_never_fails', '(xr is Seq && xr->Seq_0 is String) ==> r is Ok'),
            ('streams_and_non_sequences_are_type_errors', '((xr is Seq && xr->Seq_0 is Stream) || !(xr is Seq || xr is Null)) ==> (r is Err && err_class(r->Err_0) == ErrClass::Type)'),
        ],
        props=['C10'],
    ),
]
