"""C10: index / slice arithmetic kernels of core.rs (verbatim raw source)."""
from assemble import Item

NAME = 'index'
PRELUDE = ['base']
SPECS = ['index.rs']
DEPS = []
NEEDS_EXPANDED = False

LEN_INV = ('slice_len_fits_isize', 'xs.len() <= isize::MAX')

ITEMS = [
    Item(
        id='pythonic_index_isize', source='src/core.rs', locator='fn pythonic_index_isize',
        requires=[LEN_INV],
        ensures=[
            ('ok_iff_python_index_defined', 'r is Ok <==> py_index(xs.len() as int, n as int) is Some'),
            ('ok_value_is_python_index', 'r is Ok ==> Some(r->Ok_0 as int) == py_index(xs.len() as int, n as int)'),
            ('err_is_index_error', 'r is Err ==> err_class(r->Err_0) == ErrClass::Index'),
        ],
        props=['C10'],
    ),
    Item(
        id='clamped_pythonic_index', source='src/core.rs', locator='fn clamped_pythonic_index',
        requires=[LEN_INV],
        ensures=[('value_is_python_clamp', 'r as int == py_clamp(xs.len() as int, i as int)')],
        props=['C10'],
    ),
    Item(
        id='pythonic_slice', source='src/core.rs', locator='fn pythonic_slice',
        requires=[LEN_INV],
        ensures=[
            ('bounds_are_python_slice', '(r.0 as int, r.1 as int) == py_slice(xs.len() as int, opt_isize(lo), opt_isize(hi))'),
            ('lo_le_hi_le_len', 'r.0 <= r.1 <= xs.len()'),
        ],
        props=['C10'],
    ),
]
