"""C08 / C09 number kernels of src/nnum.rs: exact mixed comparison, total orders for min/max, value-consistent hashing."""
from assemble import Item

NAME = 'nnumcmp'
PRELUDE = ['base', 'bigint', 'float', 'rational']
SPECS = ['nnumcmp.rs', 'realarith.rs', 'prime.rs']
DEPS = ['nint', 'nnum']
NEEDS_EXPANDED = True

S = 'src/nnum.rs'
P8 = ['C08']
P89 = ['C08', 'C09']

ETA_BIG = (r'\.map\(NInt::Big\)', '.map(|bi: BigInt| -> (res: NInt) ensures res == NInt::Big(bi) { NInt::Big(bi) })',
           'Verus rejects a datatype constructor used as a function value: eta-expanded, with an ensures Verus checks')

ITEMS = [
    Item(id='NNumReal', kind='type', source=S, locator='enum NNumReal',
         subst=[(r'^enum NNumReal', 'pub enum NNumReal', 'visibility only: spec functions match on it')]),
    Item(id='to_nint_if_int', source=S, locator='fn to_nint_if_int', subst=[ETA_BIG],
         ensures=[('some_exactly_for_integral_finite_floats',
                   'match fv(f) { FV::Fin(v) => if v == ir(v.floor()) { r is Some && r->Some_0@ == v.floor() } else { r is None }, _ => r is None }')],
         props=P89),
    Item(id='cmp_nint_f64', source=S, locator='fn cmp_nint_f64',
         closures={1: dict(params='bi: BigInt', ret='res: Ordering',
                           ensures=[('floor_comparison', 'res == (if a@ <= bi@ { Ordering::Less } else { Ordering::Greater })')])},
         ensures=[('exact_comparison_of_integer_with_float', 'r == fv_partial_cmp(FV::Fin(ir(a@)), fv(*b))')], props=P8),
    Item(id='real_is_nan', source=S, locator="impl<'a> NNumReal<'a> / fn is_nan",
         ensures=[('value', 'r == (rv(*self) is NaN)')], props=P8),
    Item(id='real_exact_to_rational', source=S, locator="impl<'a> NNumReal<'a> / fn exact_to_rational",
         ensures=[('exact_value', 'match rv(*self) { FV::Fin(v) => r is Some && r->Some_0@ == v, _ => r is None }')], props=P8),
    Item(id='real_cmp_infinite_to_finite', source=S, locator="impl<'a> NNumReal<'a> / fn cmp_infinite_to_finite",
         ensures=[('sign_of_infinity', 'r == (match rv(*self) { FV::PosInf => Some(Ordering::Greater), FV::NegInf => Some(Ordering::Less), _ => None })')], props=P8),
    Item(id='real_eq', source=S, locator="impl<'a> PartialEq for NNumReal<'a> / fn eq",
         closures={1: dict(params='x: NInt', ret='res: bool', ensures=[('v', 'res == (x@ == a@)')]),
                   2: dict(params='x: NInt', ret='res: bool', ensures=[('v', 'res == (x@ == b@)')])},
         ensures=[('equal_iff_same_exact_value_and_not_nan', 'r == fv_eq(rv(*self), rv(*other))')], props=P89),
    Item(id='real_partial_cmp', source=S, locator="impl<'a> PartialOrd for NNumReal<'a> / fn partial_cmp",
         closures={'params:ord': dict(params='ord: Ordering', ret='res: Ordering', ensures=[('reverses', 'res == ord_reverse(ord)')])},
         ensures=[('order_by_exact_value_none_iff_nan', 'r == fv_partial_cmp(rv(*self), rv(*other))')], props=P8),
    Item(id='real_total_cmp_small_nan', source=S, locator="impl<'a> NNumReal<'a> / fn total_cmp_small_nan",
         closures={'params:ord': dict(params='ord: Ordering', ret='res: Ordering', ensures=[('reverses', 'res == ord_reverse(ord)')])},
         ensures=[('total_order_nan_smallest', 'r == total_cmp_spec(rv(*self), rv(*other), false)')], props=P8),
    Item(id='real_total_cmp_big_nan', source=S, locator="impl<'a> NNumReal<'a> / fn total_cmp_big_nan",
         closures={'params:ord': dict(params='ord: Ordering', ret='res: Ordering', ensures=[('reverses', 'res == ord_reverse(ord)')])},
         ensures=[('total_order_nan_largest', 'r == total_cmp_spec(rv(*self), rv(*other), true)')], props=P8),
    Item(id='project_to_reals', source=S, locator="impl<'a> NNum / fn project_to_reals",
         ensures=[('real_and_imaginary_parts', '(rv(r.0), rv(r.1)) == proj(self@)')], props=P89),
    Item(id='num_eq', source=S, locator='impl PartialEq for NNum / fn eq',
         ensures=[('equal_iff_same_exact_value', 'r == num_eq_spec(self@, other@)')], props=P89),
    Item(id='num_partial_cmp', source=S, locator='impl PartialOrd for NNum / fn partial_cmp',
         ensures=[('lexicographic_on_real_imaginary_exact_values', 'r == num_partial_cmp_spec(self@, other@)')], props=P8),
    Item(id='num_total_cmp_small_nan', source=S, locator='impl NNum / fn total_cmp_small_nan',
         ensures=[('value', 'r == ord_then(total_cmp_spec(proj(self@).0, proj(other@).0, false), total_cmp_spec(proj(self@).1, proj(other@).1, false))')], props=P8),
    Item(id='num_total_cmp_big_nan', source=S, locator='impl NNum / fn total_cmp_big_nan',
         ensures=[('value', 'r == ord_then(total_cmp_spec(proj(self@).0, proj(other@).0, true), total_cmp_spec(proj(self@).1, proj(other@).1, true))')], props=P8),
    Item(id='total_eq', source=S, locator='impl NNum / fn total_eq',
         ensures=[('key_equality', 'r == key_num_eq(self@, other@)')], props=P89),
    Item(id='min', source=S, locator='impl NNum / fn min',
         ensures=[('is_an_argument', '*r == *self || *r == *other'),
                  ('not_greater_than_the_other_on_reals', '(num_partial_cmp_spec(self@, other@) is Some) ==> (num_partial_cmp_spec(r@, self@) != Some(Ordering::Greater) && num_partial_cmp_spec(r@, other@) != Some(Ordering::Greater))')], props=P8),
    Item(id='max', source=S, locator='impl NNum / fn max',
         ensures=[('is_an_argument', '*r == *self || *r == *other'),
                  ('not_less_than_the_other_on_reals', '(num_partial_cmp_spec(self@, other@) is Some) ==> (num_partial_cmp_spec(r@, self@) != Some(Ordering::Less) && num_partial_cmp_spec(r@, other@) != Some(Ordering::Less))')], props=P8),
    Item(id='min_consuming', source=S, locator='impl NNum / fn min_consuming',
         ensures=[('is_an_argument', 'r == self || r == other'),
                  ('not_greater_than_the_other_on_reals', '(num_partial_cmp_spec(self@, other@) is Some) ==> (num_partial_cmp_spec(r@, self@) != Some(Ordering::Greater) && num_partial_cmp_spec(r@, other@) != Some(Ordering::Greater))')], props=P8),
    Item(id='max_consuming', source=S, locator='impl NNum / fn max_consuming',
         ensures=[('is_an_argument', 'r == self || r == other'),
                  ('not_less_than_the_other_on_reals', '(num_partial_cmp_spec(self@, other@) is Some) ==> (num_partial_cmp_spec(r@, self@) != Some(Ordering::Less) && num_partial_cmp_spec(r@, other@) != Some(Ordering::Less))')], props=P8),
    Item(id='is_prime', source=S, locator='impl NNum / fn is_prime',
         ensures=[('integers_by_definition', 'self@ is Int ==> r == is_prime(self@->Int_0)'),
                  ('integral_rationals_like_the_integer', 'self@ is Rat ==> r == (self@->Rat_0 == ir(self@->Rat_0.floor()) && is_prime(self@->Rat_0.floor()))'),
                  ('integral_floats_like_the_integer', 'self@ is Flt ==> r == (match fv(self@->Flt_0) { FV::Fin(v) => v == ir(v.floor()) && is_prime(v.floor()), _ => false })')],
         props=['C06']),
    Item(id='NAN_HASH', kind='type', source=S, locator='const NAN_HASH'),
    Item(id='hash_fraction', source=S, locator='fn hash_fraction',
         ensures=[('numerator_then_denominator', 'final(state).hlog() == old(state).hlog() + frac_hash_words(r@)')], props=['C09']),
    Item(id='consistent_hash_f64', source=S, locator='fn consistent_hash_f64',
         ensures=[('hash_of_float_depends_on_exact_value', 'final(state).hlog() == old(state).hlog() + real_hash_words(fv(f))')], props=['C09']),
    Item(id='consistent_hash_complex', source=S, locator='fn consistent_hash_complex',
         ensures=[('zero_imaginary_part_does_not_contribute',
                   'final(state).hlog() == old(state).hlog() + (if fv_eq(fv(im), FV::Fin(0real)) { real_hash_words(fv(re)) } else { real_hash_words(fv(re)) + real_hash_words(fv(im)) })')],
         props=['C09']),
    Item(id='total_hash', source=S, locator='impl NNum / fn total_hash',
         ensures=[('equal_keys_hash_equally', 'final(state).hlog() == old(state).hlog() + num_hash_words(self@)')], props=['C09']),
]
