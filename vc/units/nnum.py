"""C07 (+ the Int arms of C06): src/nnum.rs arithmetic, conversions and rounding, on rustc's macro expansion where the
function is macro-generated and on the raw source otherwise. Depends on the nint unit (contracts only)."""
from assemble import Item

NAME = 'nnum'
PRELUDE = ['base', 'bigint', 'float', 'rational']
SPECS = ['nnum.rs', 'arith.rs', 'gen:nnum_specimpls.rs']
DEPS = ['nint']
NEEDS_EXPANDED = True

S = 'src/nnum.rs'
M = 'mod nnum / '
P7 = ['C07']
P67 = ['C06', 'C07']

SUB_CONSTS = [
    (r'\bf64::INFINITY\b', 'f64_infinity()', 'Verus has no f64 associated constants; prelude fn with fv == +inf'),
    (r'\bf64::NEG_INFINITY\b', 'f64_neg_infinity()', 'idem, -inf'),
    (r'\bf64::NAN\b', 'f64_nan()', 'idem, NaN'),
]
SUB_DERIVE = [(r'#\[automatically_derived\]\s*', '', 'attribute'), (r'#\[inline\]\s*', '', 'attribute')]

ITEMS = [
    Item(id='NNum', kind='type', source=S, locator='enum NNum',
         subst=[(r'#\[derive\([^)]*\)\]\s*', '', 'Clone is verified from its rustc expansion; Debug dropped')]),
    Item(id='clone', source=S, frm='expanded', locator=M + 'impl ::core::clone::Clone for NNum / fn clone',
         ensures=[('same_value', 'r@ == self@')], props=P7, subst=SUB_DERIVE),
    # SoftDeref: helper trait of binary_match!
    Item(id='SoftDeref', kind='type', source=S, locator='trait SoftDeref'),
    Item(id='sd_c', source=S, locator='impl SoftDeref for Complex64 / fn soft_deref', ensures=[('id', 'r == self')], props=P7),
    Item(id='sd_rc', source=S, locator='impl SoftDeref for &Complex64 / fn soft_deref', ensures=[('id', 'r == *self')], props=P7),
    Item(id='sd_f', source=S, locator='impl SoftDeref for f64 / fn soft_deref', ensures=[('id', 'r == self')], props=P7),
    Item(id='sd_rf', source=S, locator='impl SoftDeref for &f64 / fn soft_deref', ensures=[('id', 'r == *self')], props=P7),
    Item(id='sd_q', source=S, locator='impl SoftDeref for Box<BigRational> / fn soft_deref', ensures=[('id', 'r@ == (*self)@')], props=P7),
    Item(id='sd_rq', source=S, locator="impl<'a> SoftDeref for &'a Box<BigRational> / fn soft_deref", ensures=[('id', 'r@ == (**self)@')], props=P7),

    # constructors
    Item(id='from_nint', source=S, locator='impl From<NInt> for NNum / fn from', ensures=[('value', 'r@ == NumV::Int(x@)'), ('wraps', 'r == NNum::Int(x)')], props=P7),
    Item(id='from_bigint', source=S, locator='impl From<BigInt> for NNum / fn from', ensures=[('value', 'r@ == NumV::Int(x@)')], props=P7),
    Item(id='from_bigrational', source=S, locator='impl From<BigRational> for NNum / fn from', ensures=[('value', 'r@ == NumV::Rat(x@)')], props=P7),
    Item(id='from_f64', source=S, locator='impl From<f64> for NNum / fn from', ensures=[('value', 'r@ == NumV::Flt(x)')], props=P7),
    Item(id='from_i64', source=S, locator='impl From<i64> for NNum / fn from', ensures=[('value', 'r@ == NumV::Int(x as int)')], props=P7),
    Item(id='from_complex', source=S, locator='impl From<Complex64> for NNum / fn from', ensures=[('value', 'r@ == NumV::Cpx(z)')], props=P7),
    Item(id='usize', source=S, locator='impl NNum / fn usize', ensures=[('value', 'r@ == NumV::Int(x as int)')], props=P7),
    Item(id='u64', source=S, locator='impl NNum / fn u64', ensures=[('value', 'r@ == NumV::Int(x as int)')], props=P7),
    Item(id='u8', source=S, locator='impl NNum / fn u8', ensures=[('value', 'r@ == NumV::Int(x as int)'), ('repr', 'r == NNum::Int(NInt::Small(x as i64))')], props=P7),
    Item(id='iverson', source=S, locator='impl NNum / fn iverson', ensures=[('value', 'r@ == NumV::Int(if b { 1int } else { 0int })')], props=P7),

    # conversions to the float level
    Item(id='nint_to_f64_or_inf', source=S, locator='fn nint_to_f64_or_inf', subst=SUB_CONSTS,
         ensures=[('value', 'r == int_to_f64(i@)')], props=P7),
    Item(id='rational_to_f64_or_inf', source=S, locator='fn rational_to_f64_or_inf', subst=SUB_CONSTS,
         closures={1: dict(params='', ret='res: f64', ensures=[('inf_by_sign', 'res == (if i@ > 0real { F_INF() } else { F_NEG_INF() })')])},
         ensures=[('value', 'r == rat_f64_or_inf(i@)')], props=P7),
    Item(id='to_rational', source=S, locator='impl NNum / fn to_rational',
         ensures=[('exact_for_int_and_rational', 'level(self@) <= 1 ==> (r is Some && r->Some_0@ == to_rat(self@))'),
                  ('none_above', 'level(self@) >= 2 ==> r is None')], props=P7),
    Item(id='exact_to_rational', source=S, locator='impl NNum / fn exact_to_rational',
         ensures=[('exact_for_int_and_rational', 'level(self@) <= 1 ==> (r is Some && r->Some_0@ == to_rat(self@))'),
                  ('exact_for_finite_float', '(self@ is Flt && fv(self@->Flt_0) is Fin) ==> (r is Some && r->Some_0@ == fv(self@->Flt_0)->Fin_0)'),
                  ('none_otherwise', '((self@ is Flt && !(fv(self@->Flt_0) is Fin)) || self@ is Cpx) ==> r is None')], props=P7 + ['C08']),
    Item(id='to_f64_or_inf_or_complex', source=S, locator='impl NNum / fn to_f64_or_inf_or_complex',
         ensures=[('float_conversion', 'level(self@) <= 2 ==> r == Ok::<f64, Complex64>(to_flt(self@))'),
                  ('complex_passthrough', 'self@ is Cpx ==> r == Err::<f64, Complex64>(self@->Cpx_0)')], props=P7),
    Item(id='to_f64_re_or_inf', source=S, locator='impl NNum / fn to_f64_re_or_inf',
         ensures=[('value', 'r == to_flt(self@)')], props=P7),
    Item(id='to_complex_or_inf', source=S, locator='impl NNum / fn to_complex_or_inf',
         ensures=[('value', 'r == to_cpx(self@)')], props=P7),
    Item(id='to_f64', source=S, locator='impl NNum / fn to_f64',
         ensures=[('value', 'r == (match self@ { NumV::Int(i) => Some(int_to_f64(i)), NumV::Rat(x) => rat_to_f64(x), NumV::Flt(f) => Some(f), NumV::Cpx(_) => None })')], props=P7),

    # integer accessors
    Item(id='to_nint', source=S, locator='impl NNum / fn to_nint',
         ensures=[('int_only', 'self@ is Int ==> (r is Some && r->Some_0@ == self@->Int_0)'), ('none_else', '!(self@ is Int) ==> r is None')], props=P67),
    Item(id='into_nint', source=S, locator='impl NNum / fn into_nint',
         ensures=[('int_only', 'self@ is Int ==> (r is Some && r->Some_0@ == self@->Int_0)'), ('none_else', '!(self@ is Int) ==> r is None')], props=P67),
    Item(id='into_bigint', source=S, locator='impl NNum / fn into_bigint',
         ensures=[('int_only', 'self@ is Int ==> (r is Some && r->Some_0@ == self@->Int_0)'), ('none_else', '!(self@ is Int) ==> r is None')], props=P67),
]
for m, sp in [('to_isize', 'opt_in_range_isize'), ('to_u8', 'opt_in_range_u8'), ('to_usize', 'opt_in_range_usize'), ('to_u64', 'opt_in_range_u64')]:
    ITEMS.append(Item(id=m, source=S, locator='impl NNum / fn ' + m,
                      ensures=[('exact_or_none', 'r == (match self@ { NumV::Int(i) => %s(i), _ => None })' % sp)], props=P67 + ['C10']))
ITEMS += [
    Item(id='clamp_to_usize', source=S, locator='impl NNum / fn clamp_to_usize',
         ensures=[('value', 'r == (match self@ { NumV::Int(i) => if i <= 0 { Some(0usize) } else { opt_in_range_usize(i) }, _ => None })')], props=P67),
    Item(id='is_nan', source=S, locator='impl NNum / fn is_nan',
         ensures=[('value', 'r == (match self@ { NumV::Flt(f) => fv(f) is NaN, NumV::Cpx(z) => fv(z.re) is NaN || fv(z.im) is NaN, _ => false })')], props=P7 + ['C08', 'C09']),
    Item(id='is_nonzero', source=S, locator='impl NNum / fn is_nonzero',
         ensures=[('value', 'r == num_nonzero(self@)')], props=P67),
    Item(id='numerator', source=S, locator='impl NNum / fn numerator',
         ensures=[('value', 'r == (match self@ { NumV::Int(i) => Some(x) if x@ == ..., _ => None })')], props=P7),
]
# numerator / denominator need existential form: use per-case clauses instead
ITEMS.pop()
ITEMS += [
    Item(id='numerator', source=S, locator='impl NNum / fn numerator',
         ensures=[('int_is_own_numerator', 'self@ is Int ==> (r is Some && r->Some_0@ == self@)'),
                  ('lowest_terms_numerator', 'self@ is Rat ==> (r is Some && r->Some_0@ == NumV::Int(rat_numer(self@->Rat_0)))'),
                  ('none_above', 'level(self@) >= 2 ==> r is None')], props=P7),
    Item(id='denominator', source=S, locator='impl NNum / fn denominator',
         ensures=[('int_has_denominator_one', 'self@ is Int ==> (r is Some && r->Some_0@ == NumV::Int(1))'),
                  ('lowest_terms_denominator', 'self@ is Rat ==> (r is Some && r->Some_0@ == NumV::Int(rat_denom(self@->Rat_0)))'),
                  ('none_above', 'level(self@) >= 2 ==> r is None')], props=P7),
    Item(id='real_part', source=S, locator='impl NNum / fn real_part',
         ensures=[('value', 'r@ == (match self@ { NumV::Cpx(z) => NumV::Flt(z.re), v => v })')], props=P7),
    Item(id='abs', source=S, locator='impl NNum / fn abs',
         ensures=[('value', 'r@ == (match self@ { NumV::Int(i) => NumV::Int(int_abs(i)), NumV::Rat(x) => NumV::Rat(real_abs(x)), '
                            'NumV::Flt(f) => NumV::Flt(f_abs(f)), NumV::Cpx(z) => NumV::Flt(c_norm(z)) })')], props=P67),
    Item(id='signum', source=S, locator='impl NNum / fn signum',
         ensures=[('int', 'self@ is Int ==> r@ == NumV::Int(int_signum(self@->Int_0))'),
                  ('rational', 'self@ is Rat ==> r@ == NumV::Int(if self@->Rat_0 > 0real { 1int } else if self@->Rat_0 == 0real { 0int } else { -1int })'),
                  ('float', 'self@ is Flt ==> r@ == (match fv(self@->Flt_0) { FV::NaN => self@, FV::PosInf => NumV::Int(1), FV::NegInf => NumV::Int(-1), '
                            'FV::Fin(x) => NumV::Int(if x > 0real { 1int } else if x == 0real { 0int } else { -1int }) })')], props=P67),
]

ROUND = {'ceil': '|x: real| real_ceil(x)', 'floor': '|x: real| x.floor()', 'trunc': '|x: real| real_trunc(x)', 'round': '|x: real| real_round(x)'}
for m, f in ROUND.items():
    ITEMS.append(Item(id=m, source=S, frm='expanded', locator=M + 'impl NNum / fn ' + m,
                      ensures=[('agrees_with_exact_arithmetic',
                                'match round_family(self@, %s) { Some(v) => r is Some && r->Some_0@ == v, None => r is None }' % f)],
                      props=P7))

DIV_ENS = [
    ('exact_fraction', '(level(self@) <= 1 && level(other@) <= 1 && to_rat(other@) != 0real) ==> r@ == NumV::Rat(to_rat(self@) / to_rat(other@))'),
    ('zero_divisor_falls_back_to_float', '(level(self@) <= 1 && level(other@) <= 1 && to_rat(other@) == 0real) ==> r@ == NumV::Flt(f_div(to_flt(self@), to_flt(other@)))'),
    ('float_level', '(level(self@) <= 2 && level(other@) <= 2 && (level(self@) == 2 || level(other@) == 2)) ==> r@ == NumV::Flt(f_div(to_flt(self@), to_flt(other@)))'),
    ('complex_level', '(self@ is Cpx || other@ is Cpx) ==> r@ == NumV::Cpx(c_div(to_cpx(self@), to_cpx(other@)))'),
]
VARIANTS = [('rr', '&NNum', '&NNum'), ('rv', '&NNum', 'NNum'), ('vr', 'NNum', '&NNum'), ('vv', 'NNum', 'NNum')]


def spec_impl(tr, m, lhs, rhs, req):
    return ('impl %sSpecImpl<%s> for %s {\n'
            '    open spec fn obeys_%s_spec() -> bool { false }\n'
            '    open spec fn %s_req(self, rhs: %s) -> bool { %s }\n'
            '    open spec fn %s_spec(self, rhs: %s) -> NNum { arbitrary() }\n'
            '}\n') % (tr, rhs, lhs, m, m, rhs, req, m, rhs)


SPEC_IMPLS = []
for tr, m, op in [('Add', 'add', 'BinOp::Add'), ('Sub', 'sub', 'BinOp::Sub'), ('Mul', 'mul', 'BinOp::Mul'), ('Rem', 'rem', 'BinOp::Rem')]:
    for suf, lhs, rhs in VARIANTS:
        req = '!exact_zero_divisor(self@, rhs@)' if tr == 'Rem' else 'true'
        SPEC_IMPLS.append(spec_impl(tr, m, lhs, rhs, req))
        ITEMS.append(Item(id='%s_%s' % (m, suf), source=S, frm='expanded',
                          locator=M + 'impl %s<%s> for %s / fn %s' % (tr, rhs, lhs, m),
                          ensures=[('tower_level_and_value', 'tower_agrees(%s, self@, other@, r@)' % op)], props=P67))

ITEMS += [
    Item(id='dumb_rational_div_floor', source=S, locator='fn dumb_rational_div_floor',
         requires=[('divisor_nonzero', 'b@ != 0real')],
         ensures=[('floor_of_exact_quotient', 'r@ == ir((a@ / b@).floor())')], props=P7),
    Item(id='dumb_rational_mod_floor', source=S, locator='fn dumb_rational_mod_floor',
         requires=[('divisor_nonzero', 'b@ != 0real')],
         ensures=[('floor_remainder', 'r@ == a@ - b@ * ir((a@ / b@).floor())')], props=P7),
    Item(id='dumb_complex_div_floor', source=S, locator='fn dumb_complex_div_floor', no_body_check=True,
         ensures=[('uninterpreted', 'r == c_div_floor(a, b)')], props=[]),
    Item(id='div_floor', source=S, frm='expanded', locator=M + 'impl NNum / fn div_floor',
         requires=[('no_exact_zero_divisor', '!exact_zero_divisor(self@, other@)')],
         ensures=[('tower_level_and_value', 'tower_agrees(BinOp::DivFloor, self@, other@, r@)')], props=P67),
    Item(id='mod_floor', source=S, frm='expanded', locator=M + 'impl NNum / fn mod_floor',
         requires=[('no_exact_zero_divisor', '!exact_zero_divisor(self@, other@)')],
         ensures=[('tower_level_and_value', 'tower_agrees(BinOp::ModFloor, self@, other@, r@)')], props=P67),
    Item(id='div_rr', source=S, locator='impl Div<&NNum> for &NNum / fn div', ensures=DIV_ENS, props=P7),
    # NB: Verus resolves the operator expression `&a / &b` to the contract of the by-value impl, so both ownership variants
    # carry the same (full) contract; each body is verified against it separately.
    Item(id='div_vv', source=S, frm='expanded', locator=M + 'impl Div<NNum> for NNum / fn div', ensures=DIV_ENS, props=P7),
    Item(id='neg_v', source=S, locator='impl Neg for NNum / fn neg',
         subst=[(r'NNum::Float\(-f\)', 'NNum::Float(f64_neg(f))', 'Verus rejects unary minus on floats; prelude fn f64_neg (exact sign flip)')],
         ensures=[('value', 'r@ == (match self@ { NumV::Int(i) => NumV::Int(-i), NumV::Rat(x) => NumV::Rat(-x), NumV::Flt(f) => NumV::Flt(f_neg(f)), NumV::Cpx(z) => NumV::Cpx(c_neg(z)) })')],
         props=P67),
    Item(id='neg_r', source=S, locator='impl Neg for &NNum / fn neg',
         subst=[(r'NNum::Float\(-f\)', 'NNum::Float(f64_neg(*f))', 'Verus rejects unary minus on floats; prelude fn f64_neg (exact sign flip)')],
         ensures=[('value', 'r@ == (match self@ { NumV::Int(i) => NumV::Int(-i), NumV::Rat(x) => NumV::Rat(-x), NumV::Flt(f) => NumV::Flt(f_neg(f)), NumV::Cpx(z) => NumV::Cpx(c_neg(z)) })')],
         props=P67),
    Item(id='not_r', source=S, locator='impl Not for &NNum / fn not', subst=SUB_CONSTS,
         ensures=[('value', 'r@ == (match self@ { NumV::Int(i) => NumV::Int(int_not(i)), _ => NumV::Flt(F_NAN()) })')], props=P67),
    Item(id='not_v', source=S, locator='impl Not for NNum / fn not',
         ensures=[('value', 'r@ == (match self@ { NumV::Int(i) => NumV::Int(int_not(i)), _ => NumV::Flt(F_NAN()) })')], props=P67),
    Item(id='pow_big_ints', source=S, locator='fn pow_big_ints',
         ensures=[('nonnegative_exponent_exact_int', 'b@ >= 0 ==> r@ == NumV::Int(int_pow(a@, b@ as nat))'),
                  ('negative_exponent_exact_reciprocal', '(b@ < 0 && a@ != 0) ==> r@ == NumV::Rat(1real / ir(int_pow(a@, (-b@) as nat)))'),
                  ('zero_to_negative_power_is_float_like_one_over_zero', '(b@ < 0 && a@ == 0) ==> r@ is Flt')],
         props=P67),
    # float / complex powers: only the level of the result is claimed (float arithmetic is uninterpreted)
    Item(id='PowIF', kind='type', source=S, locator='trait PowIF'),
    Item(id='PowIF_f64', kind='type', source=S, locator='impl PowIF for f64'),
    Item(id='PowIF_c64', kind='type', source=S, locator='impl PowIF for Complex64'),
    Item(id='powf_pdnum', source=S, locator='fn powf_pdnum',
         ensures=[('float_or_complex', 'level(r@) >= 2')], props=P7),
    Item(id='powif_pdnum', source=S, locator='fn powif_pdnum',
         ensures=[('float_or_complex', 'level(r@) >= 2')], props=P7),
    Item(id='pow_num', source=S, locator='impl NNum / fn pow_num', subst=SUB_CONSTS,
         ensures=[('int_to_nonnegative_int_exact', '(self@ is Int && other@ is Int && other@->Int_0 >= 0) ==> r@ == NumV::Int(int_pow(self@->Int_0, other@->Int_0 as nat))'),
                  ('int_to_negative_int_exact_reciprocal', '(self@ is Int && other@ is Int && other@->Int_0 < 0 && self@->Int_0 != 0) ==> r@ == NumV::Rat(1real / ir(int_pow(self@->Int_0, (-other@->Int_0) as nat)))'),
                  ('rational_to_int_exact', '(self@ is Rat && other@ is Int && !(self@->Rat_0 == 0real && other@->Int_0 < 0)) ==> r@ == NumV::Rat(rat_pow(self@->Rat_0, other@->Int_0))'),
                  ('zero_to_negative_power_is_float', '(other@ is Int && other@->Int_0 < 0 && level(self@) <= 1 && to_rat(self@) == 0real) ==> r@ is Flt'),
                  ('otherwise_float_or_complex', '(level(self@) >= 2 || level(other@) >= 1) ==> level(r@) >= 2')],
         props=P67),
    Item(id='shl', source=S, locator='impl Shl<NNum> for NNum / fn shl', subst=SUB_CONSTS,
         ensures=[('exact_multiplication_by_power_of_two',
                   '(self@ is Int && other@ is Int && 0 <= other@->Int_0 <= usize::MAX) ==> r@ == NumV::Int(self@->Int_0 * pow2(other@->Int_0 as nat))'),
                  ('nan_otherwise', '!(self@ is Int && other@ is Int && 0 <= other@->Int_0 <= usize::MAX) ==> r@ == NumV::Flt(F_NAN())')], props=P67),
    Item(id='shr', source=S, locator='impl Shr<NNum> for NNum / fn shr', subst=SUB_CONSTS,
         ensures=[('floor_division_by_power_of_two',
                   '(self@ is Int && other@ is Int && 0 <= other@->Int_0 <= usize::MAX) ==> r@ == NumV::Int(floor_div(self@->Int_0, pow2(other@->Int_0 as nat)))'),
                  ('nan_otherwise', '!(self@ is Int && other@ is Int && 0 <= other@->Int_0 <= usize::MAX) ==> r@ == NumV::Flt(F_NAN())')], props=P67),
    Item(id='gcd', source=S, frm='expanded', locator=M + 'impl NNum / fn gcd', subst=SUB_CONSTS,
         ensures=[('value', 'r@ == (if self@ is Int && other@ is Int { NumV::Int(int_gcd(self@->Int_0, other@->Int_0)) } else { NumV::Flt(F_NAN()) })')], props=P67),
    Item(id='lcm', source=S, frm='expanded', locator=M + 'impl NNum / fn lcm', subst=SUB_CONSTS,
         ensures=[('value', 'r@ == (if self@ is Int && other@ is Int { NumV::Int(int_lcm(self@->Int_0, other@->Int_0)) } else { NumV::Flt(F_NAN()) })')], props=P67),
    Item(id='add_assign', source=S, locator='impl AddAssign<&NNum> for NNum / fn add_assign', ret=None,
         ensures=[('tower', 'tower_agrees(BinOp::Add, old(self)@, other@, final(self)@)')], props=P67),
    Item(id='sub_assign', source=S, locator='impl SubAssign<&NNum> for NNum / fn sub_assign', ret=None,
         ensures=[('tower', 'tower_agrees(BinOp::Sub, old(self)@, other@, final(self)@)')], props=P67),
]
for tr, m, f in [('BitAnd', 'bitand', 'int_and'), ('BitOr', 'bitor', 'int_or'), ('BitXor', 'bitxor', 'int_xor')]:
    for suf, lhs, rhs in [('rr', '&NNum', '&NNum'), ('vv', 'NNum', 'NNum')]:
        SPEC_IMPLS.append(spec_impl(tr, m, lhs, rhs, 'true'))
        ITEMS.append(Item(id='%s_%s' % (m, suf), source=S, frm='expanded', locator=M + 'impl %s<%s> for %s / fn %s' % (tr, rhs, lhs, m),
                          subst=SUB_CONSTS,
                          ensures=[('value', 'r@ == (if self@ is Int && other@ is Int { NumV::Int(%s(self@->Int_0, other@->Int_0)) } else { NumV::Flt(F_NAN()) })' % f)],
                          props=P67))

SPEC_IMPLS.append(spec_impl('Div', 'div', '&NNum', '&NNum', 'true'))
SPEC_IMPLS.append(spec_impl('Div', 'div', 'NNum', 'NNum', 'true'))
SPEC_IMPLS.append(spec_impl('Shl', 'shl', 'NNum', 'NNum', 'true'))
SPEC_IMPLS.append(spec_impl('Shr', 'shr', 'NNum', 'NNum', 'true'))

GENERATED_SPECS = {'nnum_specimpls.rs': 'verus! {\n' + '\n'.join(SPEC_IMPLS) + '''
impl NegSpecImpl for NNum {
    open spec fn obeys_neg_spec() -> bool { false }
    open spec fn neg_req(self) -> bool { true }
    open spec fn neg_spec(self) -> NNum { arbitrary() }
}
impl NegSpecImpl for &NNum {
    open spec fn obeys_neg_spec() -> bool { false }
    open spec fn neg_req(self) -> bool { true }
    open spec fn neg_spec(self) -> NNum { arbitrary() }
}
impl NotSpecImpl for NNum {
    open spec fn obeys_not_spec() -> bool { false }
    open spec fn not_req(self) -> bool { true }
    open spec fn not_spec(self) -> NNum { arbitrary() }
}
impl NotSpecImpl for &NNum {
    open spec fn obeys_not_spec() -> bool { false }
    open spec fn not_req(self) -> bool { true }
    open spec fn not_spec(self) -> NNum { arbitrary() }
}
impl AddAssignSpecImpl<&NNum> for NNum {
    open spec fn obeys_add_assign_spec() -> bool { false }
    open spec fn add_assign_req(&self, rhs: &NNum) -> bool { true }
    open spec fn add_assign_spec(&self, rhs: &NNum) -> &NNum { arbitrary() }
}
impl SubAssignSpecImpl<&NNum> for NNum {
    open spec fn obeys_sub_assign_spec() -> bool { false }
    open spec fn sub_assign_req(&self, rhs: &NNum) -> bool { true }
    open spec fn sub_assign_spec(&self, rhs: &NNum) -> &NNum { arbitrary() }
}
''' + ''.join('''impl vstd::std_specs::convert::FromSpecImpl<%s> for NNum {
    open spec fn obeys_from_spec() -> bool { false }
    open spec fn from_spec(v: %s) -> NNum { arbitrary() }
}
''' % (t, t) for t in ['NInt', 'BigInt', 'BigRational', 'f64', 'i64', 'Complex64']) + '} // verus!\n'}
