"""C16 unit A: rendering of integers by str / $ / print / format strings in base 2, 8, 10, 16 depends only on the value
(forward_display! in nint.rs and the Int arm of NNum's forward_display!, verified on rustc's macro expansion)."""
from assemble import Item

NAME = 'display'
PRELUDE = ['base', 'bigint', 'float', 'rational', 'fmtp', 'fmtimpls']
SPECS = []
DEPS = ['nint', 'nnum']
NEEDS_EXPANDED = True

RADIX = {'Display': 'Radix::Dec', 'LowerHex': 'Radix::LowerHex', 'UpperHex': 'Radix::UpperHex', 'Binary': 'Radix::Bin', 'Octal': 'Radix::Oct'}
ITEMS = []
for tr, rx in RADIX.items():
    ITEMS.append(Item(id='nint_' + tr.lower(), source='src/nint.rs', frm='expanded', locator='mod nint / impl fmt::%s for NInt / fn fmt' % tr,
                      ensures=[('never_fails', 'r is Ok'),
                               ('rendering_depends_on_value_only', 'final(formatter).out() == old(formatter).out() + render_sm(%s, self@)' % rx)],
                      props=['C16']))
for tr, rx in RADIX.items():
    ITEMS.append(Item(id='nnum_' + tr.lower(), source='src/nnum.rs', frm='expanded', locator='mod nnum / impl fmt::%s for NNum / fn fmt' % tr,
                      ensures=[('integers_render_by_value_in_the_requested_base',
                                'self@ is Int ==> (r is Ok && final(formatter).out() == old(formatter).out() + render_sm(%s, self@->Int_0))' % rx)],
                      props=['C16']))
