"""C10: the builtin accessors that sit on top of the index / slice kernels: eval.rs::slice, the closures registered as
`second`, `third`, `tail`, `butlast`, `take`, `drop` in lib.rs::initialize (rule 3.2-6), and the `*_ok` conversion wrappers of core.rs.
Each is proved to be the corresponding index or slice expression (statement of C10: "first/second/third/last/tail/butlast/take n/drop n
agree with the corresponding index or slice expression")."""
from assemble import Item

NAME = 'accessors'
PRELUDE = ['base', 'bigint', 'float', 'rational', 'opaque']
SPECS = ['index.rs', 'accessors.rs', 'obj_from_bigint.rs']
DEPS = ['nint', 'nnum', 'coretypes', 'objctors', 'index']
NEEDS_EXPANDED = True

L = 'src/lib.rs'
P = ['C10']

# what slice_seq guarantees, restated for slice(Obj::Seq(s), lo, hi) with fixed bounds
def slice_like(lo, hi):
    b = 'py_slice(%%s@.len() as int, %s, %s)' % (lo, hi)
    out = []
    for kind in ('List', 'Bytes'):
        bb = b % ('P0->Seq_0->%s_0' % kind)
        out.append(('%s_is_python_subrange' % kind.lower(),
                    '(P0 is Seq && P0->Seq_0 is %(k)s) ==> (r is Ok && r->Ok_0 is Seq && r->Ok_0->Seq_0 is %(k)s && '
                    'r->Ok_0->Seq_0->%(k)s_0@ =~= P0->Seq_0->%(k)s_0@.subrange(%(b)s.0, %(b)s.1))' % dict(k=kind, b=bb)))
    bb = b % 'P0->Seq_0->Vector_0'
    out.append(('vector_is_python_subrange',
                '(P0 is Seq && P0->Seq_0 is Vector) ==> (r is Ok && r->Ok_0 is Seq && r->Ok_0->Seq_0 is Vector && '
                'r->Ok_0->Seq_0->Vector_0@.len() == %(b)s.1 - %(b)s.0 && '
                'forall|k: int| 0 <= k < r->Ok_0->Seq_0->Vector_0@.len() ==> (#[trigger] r->Ok_0->Seq_0->Vector_0@[k])@ == P0->Seq_0->Vector_0@[%(b)s.0 + k]@)' % dict(b=bb)))
    out.append(('non_sequences_and_dictionaries_are_type_errors', '(!(P0 is Seq) || P0->Seq_0 is Dict) ==> (r is Err && err_class(r->Err_0) == ErrClass::Type)'))
    return out


def nth_like(n):
    return [
        ('list_element_at_python_index', '(P0 is Seq && P0->Seq_0 is List) ==> (match py_index(P0->Seq_0->List_0@.len() as int, %d) { Some(k) => r == Ok::<Obj, NErr>(P0->Seq_0->List_0@[k]), None => r is Err && err_class(r->Err_0) == ErrClass::Index })' % n),
        ('bytes_element_at_python_index', '(P0 is Seq && P0->Seq_0 is Bytes) ==> (match py_index(P0->Seq_0->Bytes_0@.len() as int, %d) { Some(k) => r == Ok::<Obj, NErr>(Obj::Num(NNum::Int(NInt::Small(P0->Seq_0->Bytes_0@[k] as i64)))), None => r is Err && err_class(r->Err_0) == ErrClass::Index })' % n),
        ('vector_element_at_python_index', '(P0 is Seq && P0->Seq_0 is Vector) ==> (match py_index(P0->Seq_0->Vector_0@.len() as int, %d) { Some(k) => r is Ok && r->Ok_0 is Num && r->Ok_0->Num_0@ == P0->Seq_0->Vector_0@[k]@, None => r is Err && err_class(r->Err_0) == ErrClass::Index })' % n),
        ('string_fails_exactly_out_of_range', '(P0 is Seq && P0->Seq_0 is String) ==> (r is Ok <==> py_index(str_bytes(*P0->Seq_0->String_0).len() as int, %d) is Some)' % n),
        ('non_sequences_are_refused', '!(P0 is Seq) ==> r is Err'),
    ]


LENS = ('rust_allocation_limit', 'P0 is Seq ==> seq_len_fits_isize(P0->Seq_0)')
ONE = dict(params=['Obj'], ret='NRes<Obj>')

ITEMS = [
    Item(id='obj_from_bigint', source='src/core.rs', frm='expanded', locator='mod core / impl From<BigInt> for Obj / fn from',
         ensures=[('wraps', 'r is Num && r->Num_0@ == NumV::Int(n@)')], props=P),
    # `slice(x, lo, hi)`: slice_seq on sequences, a type error on everything else
    Item(id='slice', source='src/eval.rs', locator='fn slice',
         requires=[('rust_allocation_limit', 'xr is Seq ==> seq_len_fits_isize(xr->Seq_0)')],
         ensures=[('sequences_go_through_slice_seq', 'xr is Seq ==> slice_seq_post(xr->Seq_0, lo, hi, r)'),
                  ('non_sequences_are_type_errors', '!(xr is Seq) ==> (r is Err && err_class(r->Err_0) == ErrClass::Type)')],
         props=P),
    Item(id='builtin_second', source=L, locator='(closure)', closure_as_fn=dict(name='second', fname='builtin_second', **ONE),
         requires=[LENS], ensures=nth_like(1), props=P),
    Item(id='builtin_third', source=L, locator='(closure)', closure_as_fn=dict(name='third', fname='builtin_third', **ONE),
         requires=[LENS], ensures=nth_like(2), props=P),
    Item(id='builtin_tail', source=L, locator='(closure)', closure_as_fn=dict(name='tail', fname='builtin_tail', **ONE),
         requires=[LENS], ensures=slice_like('Some(1int)', 'None'), props=P),
    Item(id='builtin_butlast', source=L, locator='(closure)', closure_as_fn=dict(name='butlast', fname='builtin_butlast', **ONE),
         requires=[LENS], ensures=slice_like('None', 'Some(-1int)'), props=P),
    Item(id='builtin_take', source=L, locator='(closure)',
         closure_as_fn=dict(name='take', fname='builtin_take', params=['&REnv', 'Obj', 'Obj'], ret='NRes<Obj>'),
         requires=[('rust_allocation_limit', 'P1 is Seq ==> seq_len_fits_isize(P1->Seq_0)')],
         ensures=[('take_n_is_the_slice_up_to_n', '!(P1 is Seq && P2 is Func) ==> (P1 is Seq ==> slice_seq_post(P1->Seq_0, None, Some(P2), r))'),
                  ('non_sequences_are_type_errors', '!(P1 is Seq) ==> (r is Err && err_class(r->Err_0) == ErrClass::Type)')],
         props=P),
    Item(id='builtin_drop', source=L, locator='(closure)',
         closure_as_fn=dict(name='drop', fname='builtin_drop', params=['&REnv', 'Obj', 'Obj'], ret='NRes<Obj>'),
         requires=[('rust_allocation_limit', 'P1 is Seq ==> seq_len_fits_isize(P1->Seq_0)')],
         ensures=[('drop_n_is_the_slice_from_n', '!(P1 is Seq && P2 is Func) ==> (P1 is Seq ==> slice_seq_post(P1->Seq_0, Some(P2), None, r))'),
                  ('non_sequences_are_type_errors', '!(P1 is Seq) ==> (r is Err && err_class(r->Err_0) == ErrClass::Type)')],
         props=P),
]
