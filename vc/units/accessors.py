"""C10: the builtin accessors that sit on top of the index / slice kernels: eval.rs::slice, the closures registered as
`second`, `third`, `tail`, `butlast`, `take`, `drop` in lib.rs::initialize (rule 3.2-6), and the `*_ok` conversion wrappers of core.rs.
Each is proved to be the corresponding index or slice expression (statement of C10: "first/second/third/last/tail/butlast/take n/drop n
agree with the corresponding index or slice expression")."""
from assemble import Item

NAME = 'accessors'
PRELUDE = ['base', 'bigint', 'float', 'rational', 'opaque']
SPECS = ['index.rs', 'accessors.rs', 'obj_from_bigint.rs']
DEPS = ['nint', 'nnum', 'coretypes', 'objctors', 'index']
NEEDS_EXPANDED = True

L = 'src/lib.rs'
P = ['C10']

# what slice_seq guarantees, restated for slice(Obj::Seq(s), lo, hi) with fixed bounds
def slice_like(lo, hi):
    b = 'py_slice(%%s@.len() as int, %s, %s)' % (lo, hi)
    out = []
    for kind in ('List', 'Bytes'):
        bb = b % ('P0->Seq_0->%s_0' % kind)
        out.append(('%s_is_python_subrange' % kind.lower(),
                    '(P0 is Seq && P0->Seq_0 is %(k)s) ==> (r is Ok && r->Ok_0 is Seq && r->Ok_0->Seq_0 is %(k)s && '
                    'r->Ok_0->Seq_0->%(k)s_0@ =~= P0->Seq_0->%(k)s_0@.subrange(%(b)s.0, %(b)s.1))' % dict(k=kind, b=bb)))
    bb = b % 'P0->Seq_0->Vector_0'
    out.append(('vector_is_python_subrange',
                '(P0 is Seq && P0->Seq_0 is Vector) ==> (r is Ok && r->Ok_0 is Seq && r->Ok_0->Seq_0 is Vector && '
                'r->Ok_0->Seq_0->Vector_0@.len() == %(b)s.1 - %(b)s.0 && '
                'forall|k: int| 0 <= k < r->Ok_0->Seq_0->Vector_0@.len() ==> (#[trigger] r->Ok_0->Seq_0->Vector_0@[k])@ == P0->Seq_0->Vector_0@[%(b)s.0 + k]@)' % dict(b=bb)))
    out.append(('non_sequences_and_dictionaries_are_type_errors', '(!(P0 is Seq) || P0->Seq_0 is Dict) ==> (r is Err && err_class(r->Err_0) == ErrClass::Type)'))
    return out


def nth_like(n):
    return [
        ('list_element_at_python_index', '(P0 is Seq && P0->Seq_0 is List) ==> (match py_index(P0->Seq_0->List_0@.len() as int, %d) { Some(k) => r == Ok::<Obj, NErr>(P0->Seq_0->List_0@[k]), None => r is Err && err_class(r->Err_0) == ErrClass::Index })' % n),
        ('bytes_element_at_python_index', '(P0 is Seq && P0->Seq_0 is Bytes) ==> (match py_index(P0->Seq_0->Bytes_0@.len() as int, %d) { Some(k) => r == Ok::<Obj, NErr>(Obj::Num(NNum::Int(NInt::Small(P0->Seq_0->Bytes_0@[k] as i64)))), None => r is Err && err_class(r->Err_0) == ErrClass::Index })' % n),
        ('vector_element_at_python_index', '(P0 is Seq && P0->Seq_0 is Vector) ==> (match py_index(P0->Seq_0->Vector_0@.len() as int, %d) { Some(k) => r is Ok && r->Ok_0 is Num && r->Ok_0->Num_0@ == P0->Seq_0->Vector_0@[k]@, None => r is Err && err_class(r->Err_0) == ErrClass::Index })' % n),
        ('string_fails_exactly_out_of_range', '(P0 is Seq && P0->Seq_0 is String) ==> (r is Ok <==> py_index(str_bytes(*P0->Seq_0->String_0).len() as int, %d) is Some)' % n),
        ('non_sequences_are_refused', '!(P0 is Seq) ==> r is Err'),
    ]


LENS = ('rust_allocation_limit', 'P0 is Seq ==> seq_len_fits_isize(P0->Seq_0)')
ONE = dict(params=['Obj'], ret='NRes<Obj>')

ITEMS = [
    Item(id='obj_from_bigint', source='src/core.rs', frm='expanded', locator='mod core / impl From<BigInt> for Obj / fn from',
         ensures=[('wraps', 'r is Num && r->Num_0@ == NumV::Int(n@)')], props=P),
    # `slice(x, lo, hi)`: slice_seq on sequences, a type error on everything else
    Item(id='slice', source='src/eval.rs', locator='fn slice',
         requires=[('rust_allocation_limit', 'xr is Seq ==> seq_len_fits_isize(xr->Seq_0)')],
         ensures=[('sequences_go_through_slice_seq', 'xr is Seq ==> slice_seq_post(xr->Seq_0, lo, hi, r)'),
                  ('non_sequences_are_type_errors', '!(xr is Seq) ==> (r is Err && err_class(r->Err_0) == ErrClass::Type)')],
         props=P),
    Item(id='builtin_second', source=L, locator='(closure)', closure_as_fn=dict(name='second', fname='builtin_second', **ONE),
         requires=[LENS], ensures=nth_like(1), props=P),
    Item(id='builtin_third', source=L, locator='(closure)', closure_as_fn=dict(name='third', fname='builtin_third', **ONE),
         requires=[LENS], ensures=nth_like(2), props=P),
    Item(id='builtin_tail', source=L, locator='(closure)', closure_as_fn=dict(name='tail', fname='builtin_tail', **ONE),
         requires=[LENS], ensures=slice_like('Some(1int)', 'None'), props=P),
    Item(id='builtin_butlast', source=L, locator='(closure)', closure_as_fn=dict(name='butlast', fname='builtin_butlast', **ONE),
         requires=[LENS], ensures=slice_like('None', 'Some(-1int)'), props=P),
    Item(id='builtin_take', source=L, locator='(closure)',
         closure_as_fn=dict(name='take', fname='builtin_take', params=['&REnv', 'Obj', 'Obj'], ret='NRes<Obj>'),
         requires=[('rust_allocation_limit', 'P1 is Seq ==> seq_len_fits_isize(P1->Seq_0)')],
         ensures=[('take_n_is_the_slice_up_to_n', '!(P1 is Seq && P2 is Func) ==> (P1 is Seq ==> slice_seq_post(P1->Seq_0, None, Some(P2), r))'),
                  ('non_sequences_are_type_errors', '!(P1 is Seq) ==> (r is Err && err_class(r->Err_0) == ErrClass::Type)')],
         props=P),
    Item(id='builtin_drop', source=L, locator='(closure)',
         closure_as_fn=dict(name='drop', fname='builtin_drop', params=['&REnv', 'Obj', 'Obj'], ret='NRes<Obj>'),
         requires=[('rust_allocation_limit', 'P1 is Seq ==> seq_len_fits_isize(P1->Seq_0)')],
         ensures=[('drop_n_is_the_slice_from_n', '!(P1 is Seq && P2 is Func) ==> (P1 is Seq ==> slice_seq_post(P1->Seq_0, Some(P2), None, r))'),
                  ('non_sequences_are_type_errors', '!(P1 is Seq) ==> (r is Err && err_class(r->Err_0) == ErrClass::Type)')],
         props=P),
]

FEW = 'src/few.rs'
C = 'src/core.rs'
ITEMS += [
    # few.rs: argument-vector classifiers used by every hand-written Builtin::run
    Item(id='Few', kind='type', source=FEW, locator='enum Few'),
    Item(id='Few2', kind='type', source=FEW, locator='enum Few2'),
    Item(id='few', source=FEW, locator='fn few',
         ensures=[('classifies_by_length', 'match r { Few::Zero => xs@.len() == 0, Few::One(x) => xs@.len() == 1 && x == xs@[0], Few::Many(v) => xs@.len() >= 2 && v@ == xs@ }')],
         props=P),
    Item(id='few2', source=FEW, locator='fn few2',
         ensures=[('classifies_by_length', 'match r { Few2::Zero => xs@.len() == 0, Few2::One(x) => xs@.len() == 1 && x == xs@[0], '
                   'Few2::Two(x, y) => xs@.len() == 2 && x == xs@[0] && y == xs@[1], Few2::Many(v) => xs@.len() >= 3 && v@ == xs@ }')],
         props=P),
    # `first` / `last`: element 0 / -1 of the single sequence argument
    Item(id='First', kind='type', source=L, locator='struct First'),
    Item(id='Last', kind='type', source=L, locator='struct Last'),
    Item(id='first_run', source=L, locator='impl Builtin for First / fn run', wrap='impl First',
         requires=[('rust_allocation_limit', 'args@.len() == 1 && args@[0] is Seq ==> seq_len_fits_isize(args@[0]->Seq_0)')],
         ensures=[(n, '(args@.len() == 1) ==> (%s)' % e.replace('P0', 'args@[0]')) for n, e in nth_like(0)] +
                 [('exactly_one_argument', 'args@.len() != 1 ==> (r is Err && err_class(r->Err_0) == ErrClass::Type)')],
         props=P),
    Item(id='last_run', source=L, locator='impl Builtin for Last / fn run', wrap='impl Last',
         requires=[('rust_allocation_limit', 'args@.len() == 1 && args@[0] is Seq ==> seq_len_fits_isize(args@[0]->Seq_0)')],
         ensures=[(n, '(args@.len() == 1) ==> (%s)' % e.replace('P0', 'args@[0]')) for n, e in nth_like(-1)] +
                 [('exactly_one_argument', 'args@.len() != 1 ==> (r is Err && err_class(r->Err_0) == ErrClass::Type)')],
         props=P),
    # core.rs: the Option -> NRes wrappers behind `take n` / `drop n` / window sizes / int() / float()
    Item(id='to_usize_ok', source=C, locator='fn to_usize_ok',
         ensures=[('ok_exactly_for_integers_in_range', 'match (match n@ { NumV::Int(i) => opt_in_range_usize(i), _ => None }) { Some(v) => r == Ok::<usize, NErr>(v), None => r is Err && err_class(r->Err_0) == ErrClass::Value }')],
         props=P),
    Item(id='clamp_to_usize_ok', source=C, locator='fn clamp_to_usize_ok',
         ensures=[('negative_integers_clamp_to_zero', 'match n@ { NumV::Int(i) => (if i <= 0 { r == Ok::<usize, NErr>(0usize) } else { match opt_in_range_usize(i) { Some(v) => r == Ok::<usize, NErr>(v), None => r is Err && err_class(r->Err_0) == ErrClass::Value } }), '
                   '_ => r is Err && err_class(r->Err_0) == ErrClass::Value }')],
         props=P),
    Item(id='obj_clamp_to_usize_ok', source=C, locator='fn obj_clamp_to_usize_ok',
         ensures=[('numbers_go_through_clamp', 'match *n { Obj::Num(m) => (match m@ { NumV::Int(i) => (if i <= 0 { r == Ok::<usize, NErr>(0usize) } else { match opt_in_range_usize(i) { Some(v) => r == Ok::<usize, NErr>(v), None => r is Err } }), _ => r is Err }), '
                   '_ => r is Err && err_class(r->Err_0) == ErrClass::Type }')],
         props=P),
    Item(id='into_nint_ok', source=C, locator='fn into_nint_ok',
         ensures=[('ok_exactly_for_integers', 'match n@ { NumV::Int(i) => r is Ok && r->Ok_0@ == i, _ => r is Err && err_class(r->Err_0) == ErrClass::Value }')],
         props=P + ['C16']),
    Item(id='into_bigint_ok', source=C, locator='fn into_bigint_ok',
         ensures=[('ok_exactly_for_integers', 'match n@ { NumV::Int(i) => r is Ok && r->Ok_0@ == i, _ => r is Err && err_class(r->Err_0) == ErrClass::Value }')],
         props=P + ['C16']),
]
