"""C06: src/nint.rs — every function of NInt except lazy_is_prime, verified on rustc's macro expansion.

View: NInt@ : int  (Small(n) -> n, Big(b) -> b@).  Every postcondition is stated on the view only, and a `Big`
holding an i64-range value is a legal input everywhere: representation independence is the contract shape itself.
"""
from assemble import Item

NAME = 'nint'
PRELUDE = ['base', 'bigint']
SPECS = ['nint.rs']
DEPS = []
NEEDS_EXPANDED = True

M = 'mod nint / '
P6 = ['C06']

ITEMS = [
    Item(id='NInt', kind='type', source='src/nint.rs', locator='enum NInt',
         subst=[(r'#\[derive\([^)]*\)\]\s*', '', 'derives are verified from their rustc expansion (Clone) or dropped (Debug)')]),
    Item(id='clone', source='src/nint.rs', frm='expanded', locator=M + 'impl ::core::clone::Clone for NInt / fn clone',
         ensures=[('same_value', 'r@ == self@'), ('same_repr', 'r == *self')], props=P6,
         subst=[(r'#\[automatically_derived\]\s*', '', 'attribute'), (r'#\[inline\]\s*', '', 'attribute')]),
    Item(id='from_bigint', source='src/nint.rs', frm='expanded', locator=M + 'impl From<BigInt> for NInt / fn from',
         ensures=[('value', 'r@ == x@'), ('normalised', '(r is Small) <==> fits_i64(x@)')], props=P6),
    Item(id='usize', source='src/nint.rs', frm='expanded', locator=M + 'impl NInt / fn usize',
         ensures=[('value', 'r@ == x as int')], props=P6),
    Item(id='u64', source='src/nint.rs', frm='expanded', locator=M + 'impl NInt / fn u64',
         ensures=[('value', 'r@ == x as int')], props=P6),
    Item(id='to_bigint', source='src/nint.rs', frm='expanded', locator=M + "impl<'a> NInt / fn to_bigint",
         ensures=[('value', 'r.val()@ == self@')], props=P6),
    Item(id='into_bigint', source='src/nint.rs', frm='expanded', locator=M + 'impl NInt / fn into_bigint',
         ensures=[('value', 'r@ == self@')], props=P6),
]

for m, spec in [('to_i64', 'opt_in_range_i64'), ('to_i32', 'opt_in_range_i32'), ('to_isize', 'opt_in_range_isize'),
                ('to_u32', 'opt_in_range_u32'), ('to_u8', 'opt_in_range_u8'), ('to_usize', 'opt_in_range_usize'),
                ('to_u64', 'opt_in_range_u64')]:
    ITEMS.append(Item(id=m, source='src/nint.rs', frm='expanded', locator=M + "impl<'a> NInt / fn " + m,
                      ensures=[('some_iff_fits_and_exact', 'r == %s(self@)' % spec)], props=P6))
ITEMS.append(Item(id='to_f64', source='src/nint.rs', frm='expanded', locator=M + "impl<'a> NInt / fn to_f64",
                  ensures=[('value_only', 'r == Some(int_to_f64(self@))')], props=P6))
for m, e in [('is_zero', 'self@ == 0'), ('is_positive', 'self@ > 0'), ('is_negative', 'self@ < 0')]:
    ITEMS.append(Item(id=m, source='src/nint.rs', frm='expanded', locator=M + "impl<'a> NInt / fn " + m,
                      ensures=[('value', 'r == (%s)' % e)], props=P6))

VARIANTS = [('vv', 'NInt', 'NInt'), ('vr', 'NInt', '&NInt'), ('rv', '&NInt', 'NInt'), ('rr', '&NInt', '&NInt')]


def spec_impl(tr, m, lhs, rhs, req):
    # AddSpecImpl etc. with obeys_* == false: the operator's meaning comes from the `ensures` we add, not from vstd
    return ('impl %sSpecImpl<%s> for %s {\n'
            '    open spec fn obeys_%s_spec() -> bool { false }\n'
            '    open spec fn %s_req(self, rhs: %s) -> bool { %s }\n'
            '    open spec fn %s_spec(self, rhs: %s) -> NInt { arbitrary() }\n'
            '}\n') % (tr, rhs, lhs, m, m, rhs, req, m, rhs)


SPEC_IMPLS = []
BINOPS = [
    ('Add', 'add', 'r@ == self@ + other@', None),
    ('Sub', 'sub', 'r@ == self@ - other@', None),
    ('Mul', 'mul', 'r@ == self@ * other@', None),
    # `%` truncates with the dividend's sign (C06); `/` on NInt is the truncating companion
    ('Div', 'div', 'r@ == trunc_div(self@, other@)', 'other@ != 0'),
    ('Rem', 'rem', 'r@ == trunc_rem(self@, other@)', 'other@ != 0'),
    ('BitAnd', 'bitand', 'r@ == int_and(self@, other@)', None),
    ('BitOr', 'bitor', 'r@ == int_or(self@, other@)', None),
    ('BitXor', 'bitxor', 'r@ == int_xor(self@, other@)', None),
]
for tr, m, ens, req in BINOPS:
    for suf, lhs, rhs in VARIANTS:
        SPEC_IMPLS.append(spec_impl(tr, m, lhs, rhs, 'rhs@ != 0' if req else 'true'))
        ITEMS.append(Item(
            id='%s_%s' % (m, suf), source='src/nint.rs', frm='expanded',
            locator=M + 'impl %s<%s> for %s / fn %s' % (tr, rhs, lhs, m),
            # the precondition `other@ != 0` of Div/Rem is declared through vstd's DivSpecImpl::div_req (trait impls cannot add `requires`)
            ensures=[('exact_value', ens)], props=P6))

ITEMS += [
    Item(id='neg_v', source='src/nint.rs', frm='expanded', locator=M + 'impl Neg for NInt / fn neg',
         ensures=[('exact_value', 'r@ == -self@')], props=P6),
    Item(id='neg_r', source='src/nint.rs', frm='expanded', locator=M + 'impl Neg for &NInt / fn neg',
         ensures=[('exact_value', 'r@ == -self@')], props=P6),
    Item(id='not_v', source='src/nint.rs', frm='expanded', locator=M + 'impl Not for NInt / fn not',
         ensures=[('twos_complement_not', 'r@ == int_not(self@)')], props=P6),
    Item(id='not_r', source='src/nint.rs', frm='expanded', locator=M + 'impl Not for &NInt / fn not',
         ensures=[('twos_complement_not', 'r@ == int_not(self@)')], props=P6),
    Item(id='eq', source='src/nint.rs', frm='expanded', locator=M + 'impl PartialEq for NInt / fn eq',
         ensures=[('eq_iff_same_value', 'r == (self@ == other@)')], props=['C06', 'C08', 'C09'],
         closures={1: dict(params='n: i64', ret='res: bool', ensures=[('value', 'res == (*a == n)')]),
                   2: dict(params='n: i64', ret='res: bool', ensures=[('value', 'res == (n == *b)')])}),
    Item(id='partial_cmp', source='src/nint.rs', frm='expanded', locator=M + 'impl PartialOrd for NInt / fn partial_cmp',
         ensures=[('order_by_value', 'r == Some(cmp_int(self@, other@))')], props=['C06', 'C08']),
    Item(id='cmp', source='src/nint.rs', frm='expanded', locator=M + 'impl Ord for NInt / fn cmp',
         ensures=[('order_by_value', 'r == cmp_int(self@, other@)')], props=['C06', 'C08']),
    Item(id='hash', source='src/nint.rs', frm='expanded', locator=M + 'impl Hash for NInt / fn hash',
         ensures=[('hash_depends_on_value_only', 'final(state).hlog() == old(state).hlog().push(nint_hash_word(self@))')],
         props=['C06', 'C09']),
    Item(id='magnitude', source='src/nint.rs', frm='expanded', locator=M + "impl<'a> NInt / fn magnitude",
         ensures=[('abs_value', 'r.val()@ == int_abs(self@)')], props=P6),
    Item(id='div_floor', source='src/nint.rs', frm='expanded', locator=M + 'impl NInt / fn div_floor',
         requires=[('divisor_nonzero', 'other@ != 0')],
         ensures=[('floors', 'r@ == floor_div(self@, other@)')], props=P6),
    Item(id='mod_floor', source='src/nint.rs', frm='expanded', locator=M + 'impl NInt / fn mod_floor',
         requires=[('divisor_nonzero', 'other@ != 0')],
         ensures=[('divisor_sign_remainder', 'r@ == floor_mod(self@, other@)'),
                  ('division_identity', 'other@ * floor_div(self@, other@) + r@ == self@')], props=P6),
    Item(id='abs', source='src/nint.rs', frm='expanded', locator=M + 'impl NInt / fn abs',
         ensures=[('exact_value', 'r@ == int_abs(self@)')], props=P6),
    Item(id='sign', source='src/nint.rs', frm='expanded', locator=M + 'impl NInt / fn sign',
         ensures=[('sign_of_value', 'r == sign_of(self@)')], props=P6),
    Item(id='pow', source='src/nint.rs', frm='expanded', locator=M + 'impl NInt / fn pow',
         ensures=[('exact_value', 'r@ == int_pow(self@, other as nat)')], props=P6),
    Item(id='pow_maybe_recip', source='src/nint.rs', frm='expanded', locator=M + 'impl NInt / fn pow_maybe_recip',
         ensures=[('recip_iff_negative_exponent', 'r.0 == (other@ < 0)'),
                  ('power_of_abs_exponent', 'r.1@ == int_pow(self@, int_abs(other@) as nat)')], props=P6),
    Item(id='signum', source='src/nint.rs', frm='expanded', locator=M + 'impl NInt / fn signum',
         ensures=[('exact_value', 'r@ == int_signum(self@)')], props=P6),
    Item(id='gcd', source='src/nint.rs', frm='expanded', locator=M + 'impl NInt / fn gcd',
         ensures=[('value', 'r@ == int_gcd(self@, other@)')], props=P6),
    Item(id='lcm', source='src/nint.rs', frm='expanded', locator=M + 'impl NInt / fn lcm',
         ensures=[('value', 'r@ == int_lcm(self@, other@)')], props=P6),
    Item(id='sqrt', source='src/nint.rs', frm='expanded', locator=M + 'impl NInt / fn sqrt',
         requires=[('nonnegative', 'self@ >= 0')],
         ensures=[('value', 'r@ == int_sqrt(self@)')], props=P6),
    Item(id='lte', source='src/nint.rs', frm='expanded', locator=M + 'impl NInt / fn lte',
         ensures=[('value', 'r == (self@ <= other as int)')], props=P6),
    Item(id='shl', source='src/nint.rs', frm='expanded', locator=M + 'impl Shl<usize> for NInt / fn shl',
         ensures=[('exact_multiplication_by_power_of_two', 'r@ == self@ * pow2(other as nat)')], props=P6),
    Item(id='shr', source='src/nint.rs', frm='expanded', locator=M + 'impl Shr<usize> for NInt / fn shr',
         ensures=[('floor_division_by_power_of_two', 'r@ == floor_div(self@, pow2(other as nat))')], props=P6),
    Item(id='add_assign_ref', source='src/nint.rs', frm='expanded', locator=M + 'impl AddAssign<&NInt> for NInt / fn add_assign',
         ret=None, ensures=[('exact_value', 'final(self)@ == old(self)@ + other@')], props=P6),
    Item(id='mul_assign_ref', source='src/nint.rs', frm='expanded', locator=M + 'impl MulAssign<&NInt> for NInt / fn mul_assign',
         ret=None, ensures=[('exact_value', 'final(self)@ == old(self)@ * other@')], props=P6),
    Item(id='add_assign_i64', source='src/nint.rs', frm='expanded', locator=M + 'impl AddAssign<i64> for NInt / fn add_assign',
         ret=None, ensures=[('exact_value', 'final(self)@ == old(self)@ + other')], props=P6),
    # Verus rejects `/` on signed machine integers: `*a /= other as i64` is rewritten to the trusted `i64_trunc_div` (Rust's `/`)
    Item(id='div_assign_u32', source='src/nint.rs', frm='expanded', locator=M + 'impl DivAssign<u32> for NInt / fn div_assign',
         ret=None, ensures=[('truncating_quotient', 'final(self)@ == trunc_div(old(self)@, other as int)')],
         subst=[(r'\*a /= other as i64', '*a = i64_trunc_div(*a, other as i64)', "signed `/` is outside Verus' subset; i64_trunc_div is Rust's `/` with its panic conditions as precondition")],
         props=P6),
    Item(id='lazy_is_prime', source='src/nint.rs', frm='expanded', locator=M + 'impl NInt / fn lazy_is_prime',
         ensures=[('decides_primality', 'r == is_prime(self@)')],
         loops={1: dict(invariant=[('setup', 'self@ > 3 && self@ % 2 != 0 && self@ % 3 != 0 && s@ == int_sqrt(self@)'),
                                   ('candidate_is_5_mod_6', 'f@ >= 5 && f@ % 6 == 5'),
                                   ('no_divisor_below_candidate', 'forall|d: int| 2 <= d < f@ ==> #[trigger] (self@ % d) != 0')],
                        decreases='int_sqrt(self@) + 8 - f@')},
         hints=[
             (r'let mut f = NInt::Small\(5\);',
              'proof { assert forall|d: int| 2 <= d < 5 implies #[trigger] (self@ % d) != 0 by { if d == 4 && self@ % 4 == 0 { lemma_factor_of_divisor(self@, 4, 2); } } }', 'after'),
             (r'loop \{', 'let ghost f0 = f@;', 'after'),
             (r'loop \{\s*if f > s \{', 'proof { lemma_prime_from_small(self@, f@, s@); }', 'after'),
             (r'f \+= 2;',
              'proof { assert forall|d: int| 2 <= d < f@ implies #[trigger] (self@ % d) != 0 by {\n'
              '    if d == f0 + 1 && self@ % d == 0 { lemma_factor_of_divisor(self@, d, 2); } } }', 'after'),
             (r'f \+= 2;\s*if f > s \{', 'proof { lemma_prime_from_small(self@, f@, s@); }', 'after'),
             (r'loop \{\s*if f > s \{ return true; \}\s*if \(self % &f\)\.is_zero\(\) \{',
              'proof { assert(s@ * s@ >= 5 * s@) by(nonlinear_arith) requires s@ >= 5; assert(f@ < self@); assert(self@ % f@ == 0); }', 'after'),
             (r'f \+= 2;\s*if f > s \{ return true; \}\s*if \(self % &f\)\.is_zero\(\) \{',
              'proof { assert(s@ * s@ >= 5 * s@) by(nonlinear_arith) requires s@ >= 5; assert(f@ < self@); assert(self@ % f@ == 0); }', 'after'),
             (r'f \+= 4;',
              'proof { assert forall|d: int| 2 <= d < f@ implies #[trigger] (self@ % d) != 0 by {\n'
              '    if self@ % d == 0 { if d == f0 + 3 { lemma_factor_of_divisor(self@, d, 2); } else if d == f0 + 4 { lemma_factor_of_divisor(self@, d, 3); }\n'
              '      else if d == f0 + 5 { lemma_factor_of_divisor(self@, d, 2); } } } }', 'after'),
         ],
         props=P6),
    Item(id='factorial', source='src/nint.rs', frm='expanded', locator=M + 'impl NInt / fn factorial',
         ensures=[('value', 'r@ == int_fact_below(self@)')],
         loops={1: dict(invariant=[('partial_product', 'i@ >= 1 && (i@ <= self@ || i@ == 1) && ret@ == int_fact_below(i@)')],
                        decreases='self@ - i@')},
         props=P6),
]

SPEC_IMPL_TEXT = 'verus! {\n' + '\n'.join(SPEC_IMPLS) + '''
impl AddAssignSpecImpl<&NInt> for NInt {
    open spec fn obeys_add_assign_spec() -> bool { false }
    open spec fn add_assign_req(&self, rhs: &NInt) -> bool { true }
    open spec fn add_assign_spec(&self, rhs: &NInt) -> &NInt { arbitrary() }
}
impl AddAssignSpecImpl<i64> for NInt {
    open spec fn obeys_add_assign_spec() -> bool { false }
    open spec fn add_assign_req(&self, rhs: i64) -> bool { true }
    open spec fn add_assign_spec(&self, rhs: i64) -> &NInt { arbitrary() }
}
impl DivAssignSpecImpl<u32> for NInt {
    open spec fn obeys_div_assign_spec() -> bool { false }
    open spec fn div_assign_req(&self, rhs: u32) -> bool { rhs != 0 }
    open spec fn div_assign_spec(&self, rhs: u32) -> &NInt { arbitrary() }
}
impl MulAssignSpecImpl<&NInt> for NInt {
    open spec fn obeys_mul_assign_spec() -> bool { false }
    open spec fn mul_assign_req(&self, rhs: &NInt) -> bool { true }
    open spec fn mul_assign_spec(&self, rhs: &NInt) -> &NInt { arbitrary() }
}
impl vstd::std_specs::convert::FromSpecImpl<BigInt> for NInt {
    open spec fn obeys_from_spec() -> bool { false }
    open spec fn from_spec(v: BigInt) -> NInt { arbitrary() }
}
impl NegSpecImpl for NInt {
    open spec fn obeys_neg_spec() -> bool { false }
    open spec fn neg_req(self) -> bool { true }
    open spec fn neg_spec(self) -> NInt { arbitrary() }
}
impl NegSpecImpl for &NInt {
    open spec fn obeys_neg_spec() -> bool { false }
    open spec fn neg_req(self) -> bool { true }
    open spec fn neg_spec(self) -> NInt { arbitrary() }
}
impl NotSpecImpl for NInt {
    open spec fn obeys_not_spec() -> bool { false }
    open spec fn not_req(self) -> bool { true }
    open spec fn not_spec(self) -> NInt { arbitrary() }
}
impl NotSpecImpl for &NInt {
    open spec fn obeys_not_spec() -> bool { false }
    open spec fn not_req(self) -> bool { true }
    open spec fn not_spec(self) -> NInt { arbitrary() }
}
impl ShlSpecImpl<usize> for NInt {
    open spec fn obeys_shl_spec() -> bool { false }
    open spec fn shl_req(self, rhs: usize) -> bool { true }
    open spec fn shl_spec(self, rhs: usize) -> NInt { arbitrary() }
}
impl ShrSpecImpl<usize> for NInt {
    open spec fn obeys_shr_spec() -> bool { false }
    open spec fn shr_req(self, rhs: usize) -> bool { true }
    open spec fn shr_spec(self, rhs: usize) -> NInt { arbitrary() }
}
} // verus!
'''
GENERATED_SPECS = {'nint_specimpls.rs': SPEC_IMPL_TEXT}
SPECS = ['nint.rs', 'arith.rs', 'prime.rs', 'gen:nint_specimpls.rs']
