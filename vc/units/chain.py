"""C03: the infix-chain evaluator of eval.rs (ChainEvaluator) and the tightness test of core.rs."""
from assemble import Item

NAME = 'chain'
PRELUDE = ['base', 'bigint', 'float', 'rational', 'opaque']
SPECS = ['chain.rs']
DEPS = ['nint', 'nnum', 'coretypes']
NEEDS_EXPANDED = True

E = 'src/eval.rs'
ITEMS = [
    Item(id='ChainEvaluator', kind='type', source=E, locator='struct ChainEvaluator',
         subst=[(r'(?m)^    pending:', '    pub pending:', 'visibility only'), (r'(?m)^    rightmost:', '    pub rightmost:', 'visibility only')]),
    Item(id='tighter_than_when_before', source='src/core.rs', locator='impl Precedence / fn tighter_than_when_before', no_body_check=True,
         ensures=[('tighter_first_ties_by_left_associativity', 'r == tighter(*self, *other)')], props=['C03']),
    Item(id='new', source=E, locator='impl ChainEvaluator / fn new', props=['C03'],
         ensures=[('empty_stack_denotes_the_reference_parse', 'r.pending@ == VSeq::<PFrame>::empty() && r.rightmost == operand')]),
    Item(id='run_top_popped', source=E, locator='impl ChainEvaluator / fn run_top_popped', props=['C03'],
         ensures=[('stack_untouched', 'final(self).pending@ == old(self).pending@'),
                  ('applies_operator_to_operands_then_rightmost',
                   'r is Ok ==> run_spec(op, operands@.push(old(self).rightmost)) == Ok::<Obj, NErr>(final(self).rightmost)')]),
    Item(id='run_top', source=E, locator='impl ChainEvaluator / fn run_top', props=['C03'],
         requires=[('stack_nonempty', 'old(self).pending.len() > 0')],
         ensures=[('pops_one_frame', 'final(self).pending@ == old(self).pending@.drop_last()'),
                  ('applies_the_top_frame',
                   'r is Ok ==> run_spec(old(self).pending@.last().1, old(self).pending@.last().0@.push(old(self).rightmost)) == Ok::<Obj, NErr>(final(self).rightmost)')]),
    Item(id='give', source=E, locator='impl ChainEvaluator / fn give', props=['C03'],
         ensures=[('one_more_operator_of_the_reference_parse_consumed',
                   'r is Ok ==> (forall|ops: VSeq<Tok>, i: int| #[trigger] at(ops, i, operator, precedence, operand) ==> '
                   'denote(ops, final(self).pending@, final(self).rightmost, i + 1) == denote(ops, old(self).pending@, old(self).rightmost, i))')],
         closures={1: dict(params='t: &(Vec<Obj>, Func, Precedence, CodeLoc, CodeLoc)', ret='res: bool',
                           ensures=[('tightness_of_top_frame', 'res == tighter(t.2, precedence)')])},
         loops={1: dict(invariant=[('reductions_preserve_the_denotation',
                                    'forall|ops: VSeq<Tok>, i: int| #[trigger] at(ops, i, operator, precedence, operand) ==> '
                                    'denote(ops, self.pending@, self.rightmost, i) == denote(ops, old(self).pending@, old(self).rightmost, i)')],
                        decreases='self.pending.len()')},
         hints=[
             (r'let \(mut operands, top, prec, start, end\) = self\.pending\.pop\(\)',
              'proof { assert(self.pending@.len() > 0); }\nlet ghost fs0 = self.pending@; let ghost r0 = self.rightmost;', 'before'),
             (r'return Ok\(\(\)\);',
              'proof { assert forall|ops: VSeq<Tok>, i: int| #[trigger] at(ops, i, operator, precedence, operand) implies '
              'denote(ops, self.pending@, self.rightmost, i + 1) == denote(ops, old(self).pending@, old(self).rightmost, i) by {\n'
              '    assert(self.pending@.drop_last() == fs0.drop_last());\n'
              '    lemma_chain(ops, fs0, r0, i, self.pending@.last());\n'
              '    assert(self.pending@ == fs0.drop_last().push(self.pending@.last()));\n} }', 'before', 'optional'),
             (r'self\.run_top_popped\(env, operands, top, start, end\)\?;',
              'proof { assert forall|ops: VSeq<Tok>, i: int| #[trigger] at(ops, i, operator, precedence, operand) implies '
              'denote(ops, self.pending@, self.rightmost, i) == denote(ops, old(self).pending@, old(self).rightmost, i) by {\n'
              '    lemma_run(ops, fs0, r0, i, self.rightmost);\n} }', 'after'),
             (r'self\.pending\.push\(\(\s*vec!', 'let ghost fs1 = self.pending@; let ghost r1 = self.rightmost;', 'before'),
             (r'(?m)^        Ok\(\(\)\)$',
              'proof { assert forall|ops: VSeq<Tok>, i: int| #[trigger] at(ops, i, operator, precedence, operand) implies '
              'denote(ops, self.pending@, self.rightmost, i + 1) == denote(ops, old(self).pending@, old(self).rightmost, i) by {\n'
              '    assert(self.pending@.last().0@ =~= seq![r1]);\n'
              '    lemma_push(ops, fs1, r1, i, self.pending@.last());\n'
              '    assert(self.pending@ == fs1.push(self.pending@.last()));\n} }', 'before'),
         ]),
    Item(id='finish', source=E, locator='impl ChainEvaluator / fn finish', props=['C03'],
         ensures=[('result_is_the_value_of_the_reference_parse',
                   'r is Ok ==> (forall|ops: VSeq<Tok>| #[trigger] denote(ops, self.pending@, self.rightmost, ops.len() as int) == Some((r->Ok_0, ops.len() as int)))')],
         loops={1: dict(invariant=[('reductions_preserve_the_denotation',
                                    'forall|ops: VSeq<Tok>| #[trigger] denote(ops, this.pending@, this.rightmost, ops.len() as int) == denote(ops, self.pending@, self.rightmost, ops.len() as int)')],
                        decreases='this.pending.len()')},
         hints=[
             (r'self\.run_top\(env\)\?;', 'let ghost fs0 = this.pending@; let ghost r0 = this.rightmost;', 'before'),
             (r'self\.run_top\(env\)\?;',
              'proof { assert forall|ops: VSeq<Tok>| #[trigger] denote(ops, this.pending@, this.rightmost, ops.len() as int) == denote(ops, self.pending@, self.rightmost, ops.len() as int) by {\n'
              '    lemma_run(ops, fs0, r0, ops.len() as int, this.rightmost);\n} }', 'after'),
             (r'Ok\(self\.rightmost\)',
              'proof { assert forall|ops: VSeq<Tok>| #[trigger] denote(ops, self.pending@, self.rightmost, ops.len() as int) == Some((this.rightmost, ops.len() as int)) by {\n'
              '    lemma_done(ops, this.rightmost); assert(this.pending@ =~= VSeq::<PFrame>::empty());\n} }', 'before'),
         ],
         subst=[(r'pub fn finish\(mut self, env: &REnv\)', 'pub fn finish(self, env: &REnv)',
                 'Verus rejects `mut self`: the parameter is rebound as `let mut this = self;` and `self.` renamed to `this.` in the body'),
                (r'^\{(\s*while)', r'{ let mut this = self;\1', 'idem'),
                (r'\bself\.', 'this.', 'idem')]),
]
