"""Call sites in lib.rs::initialize: the closure bodies registered for the arithmetic operators (rule 3.2-6: a closure
`|a, b| body` stored in the `body:` field of the builtin named NAME is emitted as `fn <fname>(a: T, b: T) -> R { body }` with
the parameter / return types of the struct field). These are where the zero-divisor preconditions of the numeric tower
must be established."""
from assemble import Item

NAME = 'builtins'
PRELUDE = ['base', 'bigint', 'float', 'rational', 'opaque']
SPECS = ['builtins.rs', 'arith.rs', 'realarith.rs']
DEPS = ['nint', 'nnum', 'nnumcmp', 'coretypes']
NEEDS_EXPANDED = True

L = 'src/lib.rs'
NN = ['NNum', 'NNum']
P = ['C06', 'C07']


def two_nums(name, fname, ensures, ret='NNum'):
    return Item(id=fname, source=L, locator='(closure)', closure_as_fn=dict(name=name, fname=fname, params=NN, ret=ret),
                ensures=ensures, props=P)


def one_num(name, fname, ensures):
    return Item(id=fname, source=L, locator='(closure)', closure_as_fn=dict(name=name, fname=fname, params=['NNum'], ret='NRes<Obj>'),
                ensures=ensures, props=P)


def guarded(op):
    return [('zero_divisor_is_a_value_error', '!num_nonzero(P1@) ==> (r is Err && err_class(r->Err_0) == ErrClass::Value)'),
            ('otherwise_tower_result', 'num_nonzero(P1@) ==> (r is Ok && r->Ok_0 is Num && tower_agrees(%s, P0@, P1@, r->Ok_0->Num_0@))' % op)]


ITEMS = [
    two_nums('%', 'builtin_rem', guarded('BinOp::Rem'), ret='NRes<Obj>'),
    two_nums('//', 'builtin_div_floor', guarded('BinOp::DivFloor'), ret='NRes<Obj>'),
    two_nums('%%', 'builtin_mod_floor', guarded('BinOp::ModFloor'), ret='NRes<Obj>'),
    two_nums('/!', 'builtin_div_exact',
             [('zero_divisor_is_a_value_error', '!num_nonzero(P1@) ==> (r is Err && err_class(r->Err_0) == ErrClass::Value)'),
              ('ok_only_without_remainder', 'r is Ok ==> (num_nonzero(P1@) && r->Ok_0 is Num && tower_agrees(BinOp::DivFloor, P0@, P1@, r->Ok_0->Num_0@))')],
             ret='NRes<Obj>'),
    two_nums('^', 'builtin_pow',
             [('int_to_nonnegative_int_exact', '(P0@ is Int && P1@ is Int && P1@->Int_0 >= 0) ==> r@ == NumV::Int(int_pow(P0@->Int_0, P1@->Int_0 as nat))'),
              ('int_to_negative_int_exact_reciprocal',
               '(P0@ is Int && P1@ is Int && P1@->Int_0 < 0 && P0@->Int_0 != 0) ==> r@ == NumV::Rat(1real / ir(int_pow(P0@->Int_0, (-P1@->Int_0) as nat)))')]),
    two_nums('gcd', 'builtin_gcd', [('value', '(P0@ is Int && P1@ is Int) ==> r@ == NumV::Int(int_gcd(P0@->Int_0, P1@->Int_0))')]),
    two_nums('lcm', 'builtin_lcm', [('value', '(P0@ is Int && P1@ is Int) ==> r@ == NumV::Int(int_lcm(P0@->Int_0, P1@->Int_0))')]),
    two_nums('&', 'builtin_bitand', [('value', '(P0@ is Int && P1@ is Int) ==> r@ == NumV::Int(int_and(P0@->Int_0, P1@->Int_0))')]),
    two_nums('|', 'builtin_bitor', [('value', '(P0@ is Int && P1@ is Int) ==> r@ == NumV::Int(int_or(P0@->Int_0, P1@->Int_0))')]),
    two_nums('<<', 'builtin_shl',
             [('value', '(P0@ is Int && P1@ is Int && 0 <= P1@->Int_0 <= usize::MAX) ==> r@ == NumV::Int(P0@->Int_0 * pow2(P1@->Int_0 as nat))')]),
    two_nums('>>', 'builtin_shr',
             [('value', '(P0@ is Int && P1@ is Int && 0 <= P1@->Int_0 <= usize::MAX) ==> r@ == NumV::Int(floor_div(P0@->Int_0, pow2(P1@->Int_0 as nat)))')]),
    one_num('abs', 'builtin_abs', [('int', 'P0@ is Int ==> (r is Ok && r->Ok_0 is Num && r->Ok_0->Num_0@ == NumV::Int(int_abs(P0@->Int_0)))')]),
    one_num('signum', 'builtin_signum', [('int', 'P0@ is Int ==> (r is Ok && r->Ok_0 is Num && r->Ok_0->Num_0@ == NumV::Int(int_signum(P0@->Int_0)))')]),
    one_num('even', 'builtin_even', [('parity_by_floor_remainder', 'P0@ is Int ==> (r is Ok && r->Ok_0 is Num && r->Ok_0->Num_0@ == NumV::Int(if floor_mod(P0@->Int_0, 2) == 0 { 1int } else { 0int }))')]),
    one_num('odd', 'builtin_odd', [('parity_by_floor_remainder', 'P0@ is Int ==> (r is Ok && r->Ok_0 is Num && r->Ok_0->Num_0@ == NumV::Int(if floor_mod(P0@->Int_0, 2) == 1 { 1int } else { 0int }))')]),
    one_num('floor', 'builtin_floor', [('exact', 'match round_family(P0@, |x: real| x.floor()) { Some(v) => r is Ok && r->Ok_0 is Num && r->Ok_0->Num_0@ == v, None => r is Err }')]),
    one_num('ceil', 'builtin_ceil', [('exact', 'match round_family(P0@, |x: real| real_ceil(x)) { Some(v) => r is Ok && r->Ok_0 is Num && r->Ok_0->Num_0@ == v, None => r is Err }')]),
    one_num('round', 'builtin_round', [('exact', 'match round_family(P0@, |x: real| real_round(x)) { Some(v) => r is Ok && r->Ok_0 is Num && r->Ok_0->Num_0@ == v, None => r is Err }')]),
]
