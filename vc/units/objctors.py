"""Constructors of interpreter values used by several units (core.rs, verbatim)."""
from assemble import Item

NAME = 'objctors'
PRELUDE = ['base', 'bigint', 'float', 'rational', 'opaque']
SPECS = []
DEPS = ['nint', 'nnum', 'coretypes']
NEEDS_EXPANDED = True

ITEMS = [
    Item(id='obj_i64', source='src/core.rs', locator='impl Obj / fn i64',
         ensures=[('value', 'r == Obj::Num(NNum::Int(NInt::Small(n)))')], props=['C10']),
    Item(id='obj_one', source='src/core.rs', locator='impl Obj / fn one',
         ensures=[('value', 'r == Obj::Num(NNum::Int(NInt::Small(1)))')], props=['C10']),
    Item(id='obj_u8', source='src/core.rs', locator='impl Obj / fn u8',
         ensures=[('value', 'r == Obj::Num(NNum::Int(NInt::Small(n as i64)))')], props=['C10']),
    Item(id='obj_list', source='src/core.rs', locator='impl Obj / fn list',
         ensures=[('wraps', 'r is Seq && r->Seq_0 is List && r->Seq_0->List_0@ == n@')], props=['C10']),
]
