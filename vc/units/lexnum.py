"""C15 kernel: `Lexer::lex_base_and_emit` (NrDIGITS / 0x / 0b / 0o literals), verbatim, against positional notation."""
from assemble import Item

NAME = 'lexnum'
PRELUDE = ['base', 'bigint', 'float', 'rational', 'opaque']
SPECS = ['radix.rs', 'arith.rs', 'lexnum.rs']
DEPS = ['nint', 'nnum', 'coretypes']
NEEDS_EXPANDED = True

ITEMS = [
    Item(id='Token', kind='type', source='src/lex.rs', locator='enum Token',
         subst=[(r'#\[derive\([^)]*\)\]\s*', '', 'derives dropped')]),
    Item(id='lex_base_and_emit', source='src/lex.rs', locator="impl<'a> Lexer<'a> / fn lex_base_and_emit", wrap='impl Lexer',
         requires=[('radix_in_range', '2 <= base <= 36')],
         ensures=[
             ('consumes_exactly_the_digit_run', 'final(self).rest() == old(self).rest().skip(digit_run(old(self).rest(), base as int) as int)'),
             ('emits_one_integer_token_with_the_positional_value',
              'final(self).emitted().len() == old(self).emitted().len() + 1 && final(self).emitted().last() is IntLit && '
              'final(self).emitted().last()->IntLit_0@ == radix_value(old(self).rest().take(digit_run(old(self).rest(), base as int) as int), base as int)'),
             ('earlier_tokens_untouched', 'final(self).emitted().drop_last() == old(self).emitted()'),
         ],
         attrs=['#[verifier::loop_isolation(false)]', '#[verifier::exec_allows_no_decreases_clause]'],
         closures={1: dict(params='d: &char', ret='res: Option<u32>', requires=['base <= 36'],
                           ensures=[('digit_value', 'res == (if is_digit(*d, base as int) { Some(digit_val(*d)->Some_0 as u32) } else { None::<u32> })')])},
         hints=[(r'let mut x = BigInt::from\(0\);', 'let ghost s0 = self.rest(); let ghost e0 = self.emitted(); let ghost mut k: int = 0;', 'after'),
                ('loop1:body_start', '''proof {
    lemma_digit_run_step(s0, base as int, k);
    assert(self.rest().len() > 0);
    assert(s0.skip(k)[0] == s0[k]);
    assert(is_digit(s0[k], base as int));
    assert(digit_run(s0.skip(k), base as int) >= 1);
    assert(s0.take(k + 1).drop_last() =~= s0.take(k));
    assert(s0.take(k + 1).last() == s0[k]);
    let bb = base as int; let pv = radix_value(s0.take(k), bb);
    assert(radix_value(s0.take(k + 1), bb) == radix_value(s0.take(k + 1).drop_last(), bb) * bb + digit_val(s0.take(k + 1).last()).unwrap_or(0));
    assert(pv * bb == bb * pv) by (nonlinear_arith);
    assert(s0.skip(k).skip(1) =~= s0.skip(k + 1));
}''', 'at'),
                ('loop1:body_end', 'proof { k = k + 1; }', 'at'),
                ('loop1:after', 'proof { lemma_digit_run_step(s0, base as int, k); assert(digit_run(s0.skip(k), base as int) == 0); }', 'at')],
         loops={1: dict(invariant=[('value_of_the_digits_read_so_far',
                        '0 <= k <= digit_run(s0, base as int) && self.rest() == s0.skip(k) && self.emitted() == e0 && x@ == radix_value(s0.take(k), base as int) && 2 <= base <= 36')])},
         props=['C15']),
    Item(id='lex_base_64_and_emit', source='src/lex.rs', locator="impl<'a> Lexer<'a> / fn lex_base_64_and_emit", wrap='impl Lexer',
         ensures=[
             ('consumes_exactly_the_digit_run', 'final(self).rest() == old(self).rest().skip(b64_run(old(self).rest()) as int)'),
             ('emits_one_integer_token_with_the_positional_value',
              'final(self).emitted().len() == old(self).emitted().len() + 1 && final(self).emitted().last() is IntLit && '
              'final(self).emitted().last()->IntLit_0@ == b64_value(old(self).rest().take(b64_run(old(self).rest()) as int))'),
             ('earlier_tokens_untouched', 'final(self).emitted().drop_last() == old(self).emitted()'),
         ],
         attrs=['#[verifier::loop_isolation(false)]', '#[verifier::exec_allows_no_decreases_clause]'],
         closures={1: dict(params='d: &char', ret='res: Option<u32>',
                           ensures=[('digit_value', 'res == (match b64_val(*d) { Some(v) => Some(v as u32), None => None::<u32> })')])},
         hints=[(r'let mut x = BigInt::from\(0\);', 'let ghost s0 = self.rest(); let ghost e0 = self.emitted(); let ghost mut k: int = 0;', 'after'),
                ('loop1:body_start', '''proof {
    lemma_b64_run_step(s0, k);
    assert(self.rest().len() > 0);
    assert(s0.skip(k)[0] == s0[k]);
    assert(b64_val(s0[k]) is Some);
    assert(b64_run(s0.skip(k)) >= 1);
    assert(s0.take(k + 1).drop_last() =~= s0.take(k));
    assert(s0.take(k + 1).last() == s0[k]);
    let pv = b64_value(s0.take(k));
    assert(b64_value(s0.take(k + 1)) == b64_value(s0.take(k + 1).drop_last()) * 64 + b64_val(s0.take(k + 1).last()).unwrap_or(0));
    assert(pv * 64 == 64 * pv);
    assert(s0.skip(k).skip(1) =~= s0.skip(k + 1));
}''', 'at'),
                ('loop1:body_end', 'proof { k = k + 1; }', 'at'),
                ('loop1:after', 'proof { lemma_b64_run_step(s0, k); assert(b64_run(s0.skip(k)) == 0); }', 'at')],
         loops={1: dict(invariant=[('value_of_the_digits_read_so_far',
                        '0 <= k <= b64_run(s0) && self.rest() == s0.skip(k) && self.emitted() == e0 && x@ == b64_value(s0.take(k))')])},
         props=['C15']),
]
