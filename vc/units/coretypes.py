"""The interpreter's value enums, copied verbatim from core.rs / lex.rs with payload types the verified functions never
inspect replaced by opaque prelude types (each substitution recorded). Types only; used as a dependency."""
from assemble import Item

NAME = 'coretypes'
PRELUDE = ['base', 'bigint', 'float', 'rational', 'opaque']
SPECS = ['interp.rs']
DEPS = ['nint', 'nnum']
NEEDS_EXPANDED = True

C = 'src/core.rs'
NODERIVE = (r'#\[derive\([^)]*\)\]\s*', '', 'derives dropped (Clone/Debug/PartialOrd impls are not needed by the verified functions)')
ITEMS = [
    Item(id='Obj', kind='type', source=C, locator='enum Obj', subst=[NODERIVE]),
    Item(id='Seq', kind='type', source=C, locator='enum Seq',
         subst=[NODERIVE,
                (r'Rc<HashMap<ObjKey, Obj>>', 'Rc<DictMap>', 'dict storage is opaque'),
                (r'Rc<dyn Stream>', 'Rc<StreamBox>', 'stream object is opaque')]),
    Item(id='ObjKey', kind='type', source=C, locator='struct ObjKey',
         subst=[NODERIVE, (r'pub struct ObjKey\(Obj\);', 'pub struct ObjKey(pub Obj);', 'field made visible to the bundle\'s flat module')]),
    Item(id='Assoc', kind='type', source=C, locator='enum Assoc', subst=[NODERIVE]),
    Item(id='Precedence', kind='type', source=C, locator='struct Precedence', subst=[NODERIVE]),
    Item(id='Struct', kind='type', source=C, locator='struct Struct', subst=[NODERIVE]),
    Item(id='ObjType', kind='type', source=C, locator='enum ObjType', subst=[NODERIVE]),
    Item(id='CodeLoc', kind='type', source='src/lex.rs', locator='struct CodeLoc',
         subst=[(r'#\[derive\([^)]*\)\]\s*', '#[derive(Clone, Copy)]\n', 'derives reduced')]),
    Item(id='Func', kind='type', source=C, locator='enum Func',
         subst=[NODERIVE,
                (r'Rc<dyn Builtin>', 'Rc<BuiltinBox>', 'builtin object is opaque'),
                (r'Rc<RefCell<HashMap<Vec<ObjKey>, Obj>>>', 'Rc<MemoCell>', 'memo table is opaque')]),
]

