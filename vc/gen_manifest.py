#!/usr/bin/env python3
"""Regenerates /verif/MANIFEST.json from vc/properties.py (claimed properties) and NOT_APPLICABLE below."""
import json, os, sys
HERE = os.path.dirname(os.path.abspath(__file__))
sys.path.insert(0, HERE)
import properties as P

NOT_APPLICABLE = {
    'C01': 'value semantics under aliasing is a property of statement histories over Rc::make_mut / RefCell cells; no function contract in reach of Verus/Kani states it (DESIGN.md section 4)',
    'C02': 'allocation-complexity / Rc strong-count property; not expressible as a pre/postcondition in the installed verifiers',
    'C04': 'needs relational contracts over ~350 hand-written Builtin impls built from closures, dyn dispatch and iterator adapters; outside Verus\' subset and Kani\'s reach',
    'C05': 'whole-program equivalence with a reference interpreter over Rc<RefCell<Env>>; no per-function contract expresses it',
    'C17': 'translation validation of a tree rewrite against whole-interpreter semantics; no function contract expresses it',
}

claimed = sorted(P.PROPS)
m = {
    'version': 1,
    'setup_cmd': 'python3 vc/setup.py',
    'hooks': {'guard': 'betaveros_noulith_verif',
              'enable': 'none needed: contracts live in /verif/vc and are spliced into a scratch copy of /repo; /repo carries no instrumentation',
              'baseline_off_cmd': 'cd /repo && cargo nextest run --workspace --no-fail-fast --offline --test-threads 8',
              'source_commits': [], 'add_only': True},
    'engines': [{'name': 'verus-contracts', 'path': 'vc/check.py', 'serves_properties': claimed,
                 'kind_free_text': 'contract-based deductive verification: mechanical extraction of real functions (raw source or rustc macro expansion) + spliced contracts, discharged by Verus (Z3)'}],
    'checks': [],
    'not_applicable': [{'property_id': k, 'reason': v} for k, v in sorted(NOT_APPLICABLE.items()) if k not in P.PROPS],
    'notes': 'exit 0 = all obligations discharged; exit 1 = VIOLATION (named obligation failed); exit 2 = UNDECIDED (never an alarm). See DESIGN.md.',
}
for pid in claimed:
    cfg = P.PROPS[pid]
    m['checks'].append({
        'property_id': pid,
        'quick_cmd': 'python3 vc/check.py %s --tier quick' % pid,
        'thorough_cmd': 'python3 vc/check.py %s --tier thorough' % pid,
        'evidence_file': 'evidence/%s.json' % pid,
        'replay_cmd_template': 'python3 vc/check.py %s --replay {path}' % pid,
        'engine': 'verus-contracts',
        'level_claimed': {'category': 'proof', 'text': P.TEXT[pid] + P.BOUNDED_NOTE + ' Not covered by proof: ' + cfg.get('not_covered', ''),
                          'design_ref': 'DESIGN.md section 4, ' + pid},
        'level_note': P.NOTE,
        'technique': P.TECHNIQUE,
    })
json.dump(m, open(os.path.join(os.path.dirname(HERE), 'MANIFEST.json'), 'w'), indent=1)
print('claimed', claimed)
