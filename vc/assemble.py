"""Extraction + annotation + bundle assembly.

An *item* is a function of /repo located by a locator (see rustscan.locate), taken
either from the raw source file or from rustc's macro expansion of the crate.
The text between the item's first and last token is copied verbatim; the only edits are

  * the return type `-> T` is rewritten to `-> (r: T)` (naming the result),
  * `requires` / `ensures` / `decreases` clauses are spliced between signature and body,
  * `invariant` / `decreases` clauses are spliced between a loop head and its body,
  * ghost-only `proof { .. }` / `assert(..)` hints are spliced before/after an anchored
    statement (Verus erases them; they cannot change what the code computes),
  * for a *stub* (a dependency verified with its body in another unit) the body is
    replaced by `{ unimplemented!() }` under `#[verifier::external_body]`,
  * textual `subst` rules declared on the item (each recorded in the evidence).

Every emitted line is tagged with (item, region, clause-name) so that a verifier
diagnostic can be mapped back to a named obligation.
"""
import hashlib
import re
from dataclasses import dataclass, field
from typing import Optional

from rustscan import (ScanError, mask, locate, find_loops, find_closures, match_close, line_of,
                      find_body_open, find_component, norm)


@dataclass
class Item:
    id: str
    source: str                      # path relative to /repo, e.g. src/core.rs
    locator: str                     # 'impl X for Y / fn f' (raw) ; 'mod nint / impl .. / fn f' (expanded)
    frm: str = 'raw'                 # 'raw' | 'expanded'
    ret: Optional[str] = 'r'
    requires: list = field(default_factory=list)   # [(name, expr)]
    ensures: list = field(default_factory=list)    # [(name, expr)]
    decreases: Optional[str] = None
    loops: dict = field(default_factory=dict)      # ordinal -> dict(invariant=[(name,expr)], decreases=str)
    hints: list = field(default_factory=list)      # [(anchor_regex, text, 'before'|'after')]
    subst: list = field(default_factory=list)      # [(regex, repl, why)]
    props: list = field(default_factory=list)      # property ids the *value* clauses serve
    attrs: list = field(default_factory=list)      # extra attributes, e.g. '#[verifier::spinoff_prover]'
    kind: str = 'fn'                 # 'fn' | 'type' (enum/struct copied, derives reduced)
    safety_props: list = field(default_factory=lambda: ['C14'])
    extra_impl_members: str = ''     # text added inside the wrapping trait impl (spec members)
    wrap: Optional[str] = None       # override for the wrapping impl header
    closure_as_fn: Optional[dict] = None  # rule 3.2-6, see extract_closure
    no_body_check: bool = False      # emit as external_body even in its own unit (assumed contract)
    closures: dict = field(default_factory=dict)   # ordinal -> dict(params='n: i64', ret='res: bool', requires=[..], ensures=[(name, expr)])


@dataclass
class Seg:
    text: str
    item: Optional[str] = None
    region: str = ''       # 'sig' | 'requires' | 'ensures' | 'invariant' | 'decreases' | 'body' | 'hint' | 'prelude' | 'spec'
    clause: str = ''
    src_file: str = ''
    src_line: int = 0      # line in the source file of the first line of this segment (body/sig only)


ALLOWED_DERIVES = {'Clone', 'Copy', 'Debug'}


class Source:
    """lazy cache of (text, masked) per file"""
    def __init__(self, repo_root, expanded_path=None):
        self.root = repo_root
        self.expanded_path = expanded_path
        self._cache = {}

    def get(self, item):
        key = item.source if item.frm == 'raw' else '<expanded>'
        if key not in self._cache:
            path = (self.root + '/' + item.source) if item.frm == 'raw' else self.expanded_path
            with open(path, encoding='utf-8') as f:
                text = f.read()
            self._cache[key] = (text, mask(text))
        return self._cache[key]


def _rewrite_ret(sig_text, sig_masked, ret):
    """`-> T` => `-> (r: T)`; returns new signature text (up to, not including, body `{`)."""
    if ret is None:
        return sig_text
    # find params close paren
    p = sig_masked.find('(')
    if p < 0:
        raise ScanError('no parameter list')
    pc = match_close(sig_masked, p)
    m = re.search(r'->', sig_masked[pc:])
    if not m:
        return sig_text
    a = pc + m.end()
    w = re.search(r'\bwhere\b', sig_masked[a:])
    b = a + w.start() if w else len(sig_text)
    ty = sig_text[a:b].strip()
    rest = sig_text[b:]
    return sig_text[:a] + ' (%s: %s)\n' % (ret, ty) + ('    ' + rest.strip() + '\n' if rest.strip() else '')


def reduce_derives(text):
    def repl(m):
        names = [x.strip() for x in m.group(1).split(',') if x.strip()]
        keep = [x for x in names if x.split('::')[-1] in ALLOWED_DERIVES]
        return '#[derive(%s)]' % ', '.join(keep) if keep else ''
    return re.sub(r'#\[derive\(([^)]*)\)\]', repl, text)


def annotate_body(item: Item, text, masked, bo, en):
    """text[bo:en] (a block or an expression) with the item's loop invariants, proof hints, closure contracts and recorded
    substitutions spliced in; everything else is the source text verbatim."""
    segs = []
    # body with loop annotations and hints
    loops = find_loops(masked, bo, en)
    inserts = []  # (offset, text, region, clause)
    named = {}   # loop name -> index into `loops` (loops addressed by the text of their header instead of their ordinal)
    for key, spec in item.loops.items():
        if isinstance(key, str):
            hits = [i for i, (kp, kw_, lb) in enumerate(loops) if re.search(spec['head'], text[kp:lb])]
            if len(hits) > 1:
                raise ScanError('%s: loop header %r matched %d loops' % (item.id, spec['head'], len(hits)))
            if hits:
                named[key] = hits[0]
    for key, spec in item.loops.items():
        if isinstance(key, str):
            if key not in named:
                # the loop is gone: its invariant is not needed; what the function must still establish will fail if it mattered
                continue
            ordinal = named[key] + 1
        else:
            ordinal = key
        if ordinal < 1 or ordinal > len(loops):
            raise ScanError('%s: loop #%d not found (%d loops)' % (item.id, ordinal, len(loops)))
        kwpos, kw, lbo = loops[ordinal - 1]
        lname = ('loop%d' % ordinal) if not isinstance(key, str) else 'loop[%s]' % key
        parts = []
        if spec.get('iter_name'):
            # Verus names the ghost iterator of a `for` loop with `for x in NAME: expr`; nothing else is changed
            mi = re.search(r'\bin\b', masked[kwpos:lbo])
            if kw != 'for' or not mi:
                raise ScanError('%s: loop #%d is not a for loop' % (item.id, ordinal))
            inserts.append((kwpos + mi.end(), [(' %s:' % spec['iter_name'], 'loop-iter-name', '')]))
        if spec.get('invariant'):
            parts.append(('\n    invariant\n', 'kw', ''))
            for name, e in spec['invariant']:
                parts.append(('        %s,\n' % e.strip().rstrip(','), 'invariant', '%s.%s' % (lname, name)))
        if spec.get('ensures'):
            parts.append(('    ensures\n', 'kw', ''))
            for name, e in spec['ensures']:
                parts.append(('        %s,\n' % e.strip().rstrip(','), 'invariant', '%s.%s' % (lname, name)))
        if spec.get('decreases'):
            parts.append(('    decreases %s,\n' % spec['decreases'], 'decreases', '%s.decreases' % lname))
        inserts.append((lbo, parts))
    for h in item.hints:
        anchor, htext, where = h[0], h[1], h[2]
        optional = len(h) > 3 and h[3] == 'optional'
        mloop = re.match(r'loop(\d+|\[\w+\]):(body_start|body_end|after)$', anchor)
        if mloop:
            # positions defined by a loop's braces rather than by statement text (robust to edits inside the loop)
            if mloop.group(1).startswith('['):
                nm = mloop.group(1)[1:-1]
                if nm not in named:
                    continue          # hint of a loop that no longer exists
                ordinal = named[nm] + 1
            else:
                ordinal = int(mloop.group(1))
            if ordinal < 1 or ordinal > len(loops):
                raise ScanError('%s: loop #%d not found (%d loops)' % (item.id, ordinal, len(loops)))
            lbo = loops[ordinal - 1][2]
            lbc = match_close(masked, lbo)
            off = {'body_start': lbo + 1, 'body_end': lbc, 'after': lbc + 1}[mloop.group(2)]
            inserts.append((off, [('\n' + htext.strip('\n') + '\n', 'hint', anchor)]))
            continue
        ms = [m for m in re.finditer(anchor, text[bo:en])]
        if len(ms) == 0 and optional:
            # the hint supports the proof of the very statement it is anchored on; without the statement it is not needed
            continue
        if len(ms) != 1:
            raise ScanError('%s: hint anchor %r matched %d times' % (item.id, anchor, len(ms)))
        m = ms[0]
        if where == 'before':
            # start of the line containing the match
            off = text.rfind('\n', 0, bo + m.start()) + 1
        else:
            off = bo + m.end()
        inserts.append((off, [('\n' + htext.strip('\n') + '\n', 'hint', anchor)]))
    if item.closures:
        cls = find_closures(masked, bo, en)
        targets = []
        for key, spec in item.closures.items():
            if isinstance(key, str) and key.startswith('params:'):
                # every closure whose parameter list reads exactly like this gets the annotation (robust to closures
                # being added or removed elsewhere in the function)
                want = key[len('params:'):].strip()
                hits = [(i + 1, c) for i, c in enumerate(cls) if text[c[0]:c[1]].strip('| ').strip() == want]
                if not hits:
                    raise ScanError('%s: no closure with parameters |%s|' % (item.id, want))
                targets += [(i, c, spec) for i, c in hits]
            else:
                if key < 1 or key > len(cls):
                    raise ScanError('%s: closure #%d not found (%d closures)' % (item.id, key, len(cls)))
                targets.append((key, cls[key - 1], spec))
        for ordinal, cl, spec in targets:
            p0, p1, b0, b1, braced = cl
            # header `|params|` is replaced by typed params + named return + ensures (checked by Verus against the body);
            # an expression body is wrapped in braces
            hdr = '|%s| -> (%s)' % (spec['params'], spec['ret'])
            parts = [(hdr + '\n', 'closure-hdr', '')]
            if spec.get('requires'):
                parts.append(('    requires ' + ', '.join(spec['requires']) + ',\n', 'closure-hdr', ''))
            if spec.get('ensures'):
                parts.append(('    ensures\n', 'kw', ''))
                for name, e in spec['ensures']:
                    parts.append(('        %s,\n' % e, 'closure-ensures', 'closure%d.%s' % (ordinal, name)))
            if not braced:
                parts.append(('{ ', 'closure-hdr', ''))
            inserts.append((p0, parts, p1))          # replaces text[p0:p1]
            if not braced:
                inserts.append((b1, [(' }', 'closure-hdr', '')]))
    inserts.sort(key=lambda t: t[0])
    cur = bo
    for ins in inserts:
        off, parts = ins[0], ins[1]
        if off < cur:
            raise ScanError('%s: overlapping annotations' % item.id)
        if off > cur:
            segs.append(Seg(text[cur:off], item.id, 'body', '', item.source, line_of(text, cur)))
        for t, region, clause in parts:
            segs.append(Seg(t, item.id, region, clause))
        cur = ins[2] if len(ins) > 2 else off
    segs.append(Seg(text[cur:en] + '\n', item.id, 'body', '', item.source, line_of(text, cur)))
    if item.subst:
        for s in segs:
            if s.region in ('body', 'sig'):
                for rx, repl, _why in item.subst:
                    s.text = re.sub(rx, repl, s.text)
    return segs


def extract_fn(src: Source, item: Item, stub=False):
    """Returns (segments, meta). meta has file/lines/sha256 of the verbatim text."""
    text, masked = src.get(item)
    chain = locate(text, masked, item.locator)
    comp, st, bo, en = chain[-1]
    if bo < 0:
        raise ScanError('item has no body: ' + item.locator)
    verb = text[st:en]
    meta = dict(item=item.id, source=item.source if item.frm == 'raw' else item.source + ' (rustc -Zunpretty=expanded)',
                locator=item.locator, line_start=line_of(text, st), line_end=line_of(text, en),
                sha256=hashlib.sha256(verb.encode()).hexdigest(), stub=stub)
    segs = []
    sig = text[st:bo]
    sigm = masked[st:bo]
    # drop attributes rustc adds/keeps that Verus does not know (#[inline] is fine)
    sig2 = _rewrite_ret(sig, sigm, item.ret)
    for a in item.attrs:
        segs.append(Seg(a + '\n', item.id, 'attr'))
    if stub or item.no_body_check:
        segs.append(Seg('#[verifier::external_body]\n', item.id, 'attr'))
    segs.append(Seg(sig2.rstrip() + '\n', item.id, 'sig', '', item.source, line_of(text, st)))
    if item.requires:
        segs.append(Seg('    requires\n', item.id, 'kw'))
        for name, e in item.requires:
            segs.append(Seg('        %s,\n' % e.strip().rstrip(','), item.id, 'requires', name))
    if item.ensures:
        segs.append(Seg('    ensures\n', item.id, 'kw'))
        for name, e in item.ensures:
            segs.append(Seg('        %s,\n' % e.strip().rstrip(','), item.id, 'ensures', name))
    if item.decreases and not stub:
        segs.append(Seg('    decreases %s,\n' % item.decreases, item.id, 'decreases', 'decreases'))
    if stub or item.no_body_check:
        segs.append(Seg('{ unimplemented!() }\n', item.id, 'stubbody'))
        return segs, meta
    segs += annotate_body(item, text, masked, bo, en)
    for sg in segs:
        if sg.region == 'sig':
            for rx, repl, _why in item.subst:
                sg.text = re.sub(rx, repl, sg.text)
    return segs, meta


def enclosing_impl(src: Source, item: Item):
    """(header_text, is_trait_impl, impl_start, impl_body_open, impl_end) or None"""
    text, masked = src.get(item)
    chain = locate(text, masked, item.locator)
    impls = [c for c in chain[:-1] if c[0].startswith('impl') or c[0].startswith('trait ')]
    if not impls:
        return None
    comp, st, bo, en = impls[-1]
    # header starts at the `impl` keyword (skip attributes)
    k = masked.find('impl', st, bo) if comp.startswith('impl') else masked.find('trait', st, bo)
    header = text[k:bo].strip()
    is_trait = bool(re.search(r'\bfor\b(?!\s*<)', masked[k:bo])) or comp.startswith('trait')
    return header, is_trait, st, bo, en


def extract_type(src: Source, item: Item):
    text, masked = src.get(item)
    chain = locate(text, masked, item.locator)
    comp, st, bo, en = chain[-1]
    verb = text[st:en]
    meta = dict(item=item.id, source=item.source, locator=item.locator, line_start=line_of(text, st),
                line_end=line_of(text, en), sha256=hashlib.sha256(verb.encode()).hexdigest(), stub=False)
    t = reduce_derives(verb)
    for rx, repl, _why in item.subst:
        t = re.sub(rx, repl, t)
    segs = [Seg(a + '\n', item.id, 'attr') for a in item.attrs]
    segs.append(Seg(t + '\n', item.id, 'type', '', item.source, line_of(text, st)))
    return segs, meta


def extract_closure_fn(src: Source, item: Item, stub=False):
    """Rule 3.2-6: a closure literal `|a, b| <expr>` registered as `body:` of a builtin struct
    literal whose `name:` is the given string is emitted as
        fn <fname>(<params with declared types>) -> <ret> { <closure body verbatim> }
    closure_as_fn = dict(name='%', fname='builtin_rem', params=['NNum','NNum'], ret='NRes<NNum>' ...)"""
    spec = item.closure_as_fn
    text, masked = src.get(item)
    # the name string is masked; search raw text for `name: "<name>".to_string()`
    pat = 'name: "%s".to_string()' % spec['name']
    hits = [m.start() for m in re.finditer(re.escape(pat), text)]
    if len(hits) != 1:
        raise ScanError('%s: builtin name %r found %d times' % (item.id, spec['name'], len(hits)))
    p = hits[0]
    m = re.compile(r'\bbody\s*:\s*\|').search(masked, p)
    if not m or m.start() - p > 400:
        raise ScanError('%s: body closure not found near name' % item.id)
    pstart = m.end()
    pend = masked.find('|', pstart)
    params = [x.strip() for x in text[pstart:pend].split(',') if x.strip()]
    if len(params) != len(spec['params']):
        raise ScanError('%s: closure arity changed' % item.id)
    # closure body: either a block `{...}` or an expression ending at the `,` / `}` closing the struct literal field
    i = pend + 1
    while masked[i].isspace():
        i += 1
    braced = masked[i] == '{'
    if braced:
        j = match_close(masked, i) + 1
        body = text[i:j]
    else:
        d = 0
        j = i
        while j < len(masked):
            ch = masked[j]
            if ch in '([{':
                d += 1
            elif ch in ')]}':
                if d == 0:
                    break
                d -= 1
            elif ch == ',' and d == 0:
                break
            j += 1
        body = '{\n    ' + text[i:j].strip() + '\n}'
    verb = text[m.start():j]
    meta = dict(item=item.id, source=item.source, locator='builtin %r body closure' % spec['name'],
                line_start=line_of(text, m.start()), line_end=line_of(text, j),
                sha256=hashlib.sha256(verb.encode()).hexdigest(), stub=stub,
                note='closure emitted as fn %s; parameter/return types from the builtin struct field type' % spec['fname'])
    ps = ', '.join('%s: %s' % (n, t) for n, t in zip(params, spec['params']))

    def pn(e):  # contracts name the closure parameters positionally: P0, P1, ...
        for k, n in enumerate(params):
            e = re.sub(r'\bP%d\b' % k, n, e)
        return e
    rname = item.ret or 'r'
    sig = 'fn %s(%s) -> (%s: %s)\n' % (spec['fname'], ps, rname, spec['ret'])
    segs = [Seg(a + '\n', item.id, 'attr') for a in item.attrs]
    if stub:
        segs.append(Seg('#[verifier::external_body]\n', item.id, 'attr'))
    segs.append(Seg(sig, item.id, 'sig', '', item.source, line_of(text, m.start())))
    if item.requires:
        segs.append(Seg('    requires\n', item.id, 'kw'))
        for name, e in item.requires:
            # closure parameter names may differ from the contract's canonical a, b
            segs.append(Seg('        %s,\n' % pn(e), item.id, 'requires', name))
    if item.ensures:
        segs.append(Seg('    ensures\n', item.id, 'kw'))
        for name, e in item.ensures:
            segs.append(Seg('        %s,\n' % pn(e), item.id, 'ensures', name))
    if stub:
        segs.append(Seg('{ unimplemented!() }\n', item.id, 'stubbody'))
    else:
        if braced:
            segs += annotate_body(item, text, masked, i, j)
        else:
            segs.append(Seg('{\n    ', item.id, 'closure-hdr'))
            segs += annotate_body(item, text, masked, i, j)
            segs.append(Seg('\n}\n', item.id, 'closure-hdr'))
    meta['param_names'] = params
    return segs, meta


def emit_items(src: Source, items, stub_ids=()):
    """Emit a list of Items. Items sharing a trait impl are emitted inside one impl block.
    Returns (segments, metas)."""
    segs, metas = [], []
    done_impls = {}
    for it in items:
        stub = it.id in stub_ids
        if it.kind == 'type':
            s, m = extract_type(src, it)
            segs += s
            metas.append(m)
            continue
        if it.closure_as_fn:
            s, m = extract_closure_fn(src, it, stub)
            segs += s
            metas.append(m)
            continue
        enc = enclosing_impl(src, it)
        s, m = extract_fn(src, it, stub)
        metas.append(m)
        if enc is None:
            segs += s
            continue
        header, is_trait, ist, ibo, ien = enc
        if it.wrap:
            # re-homing: a method of a trait impl whose trait is outside Verus (dyn Stream, Iterator, Display) is emitted
            # as an inherent method with the same signature and body
            header = it.wrap
            is_trait = False
        if not is_trait:
            segs.append(Seg(header + ' {\n', it.id, 'wrap'))
            segs += s
            segs.append(Seg('}\n', it.id, 'wrap'))
        else:
            text, masked = src.get(it)
            # copy non-fn members (e.g. `type Output = NInt;`) verbatim
            members = []
            for mm in re.finditer(r'\btype\s+\w+\s*=\s*[^;]+;', masked[ibo + 1:ien - 1]):
                a = ibo + 1 + mm.start()
                from rustscan import brace_depth_at
                if brace_depth_at(masked, ibo + 1, a) == 0:
                    members.append(text[a:ibo + 1 + mm.end()])
            key = (it.source, it.frm, ist)
            if key in done_impls:
                raise ScanError('%s: two contract items in one trait impl not supported' % it.id)
            done_impls[key] = True
            # other fns in the same trait impl are copied verbatim (no contract)
            others = []
            chain = locate(text, masked, it.locator)
            tgt = chain[-1]
            from rustscan import _iter_kw, brace_depth_at, item_start
            for kw in _iter_kw(masked, 'fn', ibo + 1, ien - 1):
                if brace_depth_at(masked, ibo + 1, kw) != 0:
                    continue
                stt = item_start(text, masked, kw, ibo + 1)
                if stt == tgt[1]:
                    continue
                fbo = find_body_open(masked, kw, ien - 1)
                if fbo < 0:
                    continue
                fen = match_close(masked, fbo) + 1
                others.append(text[stt:fen])
            segs.append(Seg(header + ' {\n', it.id, 'wrap'))
            for mem in members:
                segs.append(Seg('    ' + mem + '\n', it.id, 'wrap'))
            if it.extra_impl_members:
                segs.append(Seg(it.extra_impl_members + '\n', it.id, 'wrap'))
            segs += s
            for o in others:
                segs.append(Seg(o + '\n', it.id, 'body-other', '', it.source, 0))
            segs.append(Seg('}\n', it.id, 'wrap'))
    return segs, metas


class Bundle:
    def __init__(self):
        self.segs = []

    def add_text(self, text, region='prelude'):
        if not text.endswith('\n'):
            text += '\n'
        self.segs.append(Seg(text, None, region))

    def add(self, segs):
        self.segs += segs

    def render(self):
        """returns (text, linemap) where linemap[i] = Seg for 1-based line i"""
        out = []
        linemap = [None]
        for s in self.segs:
            t = s.text
            if not t.endswith('\n'):
                t += '\n'
            n = t.count('\n')
            out.append(t)
            for k in range(n):
                linemap.append((s, k))
        return ''.join(out), linemap
