"""Replay of failed obligations against the real code (stub; see replay search below)."""
import json
import os
import re

VERIF = os.path.dirname(os.path.dirname(os.path.abspath(__file__)))


def write(prop, f, results, scratch, repo):
    os.makedirs(os.path.join(VERIF, 'replays'), exist_ok=True)
    safe = re.sub(r'[^A-Za-z0-9_.-]', '_', f['obligation'])
    path = os.path.join(VERIF, 'replays', '%s-%s.json' % (prop, safe))
    meta = None
    for r in results:
        for m in r['metas']:
            if m.get('unit') == f['unit'] and m['item'] == f['item']:
                meta = m
    doc = dict(property=prop, obligation=f['obligation'], detail=f.get('detail'), kind=f['kind'],
               verifier=('kani/cbmc' if f.get('kind') == 'kani' else 'verus'), verifier_message=f['message'], verifier_output=f['rendered'],
               source=f.get('src'), at_exit=f.get('at_exit'), function=meta, failing_input=None)
    found = False
    if f.get('cex'):
        # the verifier's counterexample (CBMC via Kani), replayed against the real crate
        try:
            import kani_leg
            rc, lines = kani_leg.replay_real(f['leg'], f['cex'], repo)
            doc['failing_input'] = dict(kind='kani-counterexample', values={k: v for k, v in f['cex'].items()},
                                        leg=f['leg']['id'], replay_exit=rc, replay_output=lines,
                                        rerun='python3 vc/check.py %s --replay <this file>' % prop)
            found = rc != 0
            # the replay ran and the real code gave the expected answer on the verifier's own counterexample: the two disagree
            doc['refuted_on_real_code'] = (rc == 0 and any('VERIF-REPLAY' in l for l in lines))
        except Exception as e:
            doc['replay_search_error'] = repr(e)
        with open(path, 'w') as fh:
            json.dump(doc, fh, indent=1)
        return path, found
    try:
        import replay_search
        wit = replay_search.search(prop, f, scratch, repo)
        if wit:
            doc['failing_input'] = wit
            found = True
    except Exception as e:  # replay search must never turn into an alarm or hide one
        doc['replay_search_error'] = repr(e)
    with open(path, 'w') as fh:
        json.dump(doc, fh, indent=1)
    return path, found


def rerun(path, repo):
    doc = json.load(open(path))
    print('replay of', doc['obligation'])
    wit = doc.get('failing_input')
    if not wit:
        print('no concrete input recorded (no-failing-input-found); verifier output follows')
        print(doc.get('verifier_output', ''))
        return 1
    if wit.get('kind') == 'kani-counterexample':
        import kani_leg
        leg = [l for u in kani_leg.LEGS.values() for l in u if l['id'] == wit['leg']][0]
        rc, lines = kani_leg.replay_real(leg, wit['values'], repo)
        print('\n'.join(lines))
        print('replay exit', rc, '(non-zero = the real code still violates the clause on this input)')
        return 1 if rc != 0 else 0
    import replay_search
    return replay_search.rerun(wit, repo)


def write_bounded(prop, wit, k):
    os.makedirs(os.path.join(VERIF, 'replays'), exist_ok=True)
    path = os.path.join(VERIF, 'replays', '%s-bounded-%d.json' % (prop, k))
    doc = dict(property=prop, obligation='bounded.%s.interpreter_grid' % prop, kind='bounded', verifier='none (bounded stand-in on the real code)',
               verifier_message='the real interpreter disagrees with the reference semantics on a concrete input',
               failing_input=wit)
    with open(path, 'w') as fh:
        json.dump(doc, fh, indent=1)
    return path
