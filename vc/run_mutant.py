#!/usr/bin/env python3
"""Apply a catalogued mutant (vc/mutants/*.json: {file, old, new, property, kind: breaking|benign, note}) to a scratch copy of
/repo and run the property's check against it (VERIF_REPO). Prints the check's exit code and last lines.
usage: run_mutant.py <mutant.json> [--keep]"""
import json, os, shutil, subprocess, sys, tempfile
HERE = os.path.dirname(os.path.abspath(__file__))
REPO = os.environ.get('VERIF_REPO', '/repo')


def run(mpath, quiet=False):
    m = json.load(open(mpath))
    tmp = tempfile.mkdtemp(prefix='noulith-mut.', dir=os.environ.get('VERIF_SCRATCH', '/var/tmp'))
    try:
        subprocess.check_call(['rsync', '-a', '--exclude', '/target', '--exclude', '/.git', REPO + '/', tmp + '/'])
        p = os.path.join(tmp, m['file'])
        t = open(p).read()
        if t.count(m['old']) != 1:
            return dict(name=os.path.basename(mpath), rc=None, error='pattern matched %d times' % t.count(m['old']))
        open(p, 'w').write(t.replace(m['old'], m['new']))
        env = dict(os.environ, VERIF_REPO=tmp)
        outs = {}
        for prop in m['property'] if isinstance(m['property'], list) else [m['property']]:
            r = subprocess.run([sys.executable, os.path.join(HERE, 'check.py'), prop, '--no-evidence', '--tier', 'quick'], env=dict(env, VERIF_TIER='quick'), capture_output=True, text=True)
            outs[prop] = dict(rc=r.returncode, tail=[l for l in r.stdout.splitlines() if l.startswith(('VIOLATION', 'UNDECIDED', 'KNOWN'))][:6])
        return dict(name=os.path.basename(mpath), kind=m.get('kind', 'breaking'), results=outs)
    finally:
        shutil.rmtree(tmp, ignore_errors=True)


if __name__ == '__main__':
    res = run(sys.argv[1])
    print(json.dumps(res, indent=1))
