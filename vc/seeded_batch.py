#!/usr/bin/env python3
"""run seeded_eval over a set of directories, 3 workers; usage: seeded_batch.py <root> <out.json>"""
import concurrent.futures, glob, json, os, subprocess, sys, queue
root, outp = sys.argv[1], sys.argv[2]
dirs = sorted(glob.glob(os.path.join(root, 'C*', 'change*')))
workers = queue.Queue()
for w in ('1', '2', '3'):
    workers.put(w)
def one(d):
    prop = d.split('/')[-2]
    props = [prop] + (['C14'] if prop != 'C14' else [])
    w = workers.get()
    try:
        r = subprocess.run([sys.executable, os.path.join(os.path.dirname(os.path.abspath(__file__)), 'seeded_eval.py'), d] + props,
                           capture_output=True, text=True, env=dict(os.environ, SEED_WORKER=w))
        try:
            return json.loads(r.stdout)
        except ValueError:
            return dict(dir=d, error=(r.stdout + r.stderr)[-500:])
    finally:
        workers.put(w)
res = []
with concurrent.futures.ThreadPoolExecutor(max_workers=3) as ex:
    for x in ex.map(one, dirs):
        res.append(x)
        json.dump(res, open(outp, 'w'), indent=1)
        print(x.get('dir'), {k: v['rc'] for k, v in x.get('checks', {}).items()}, flush=True)
