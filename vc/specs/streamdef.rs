// ===== SPEC (streamdef): the default methods of `trait Stream`, checked for an arbitrary lawful finite stream =====
verus! {
// stands for `Self` / `Box<dyn Stream>` in the default methods: any stream, known only through Iterator::next (vstd's iterator laws)
#[verifier::external_body] #[verifier::accept_recursive_types] pub struct AnyStream { _p: u8 }
impl Iterator for AnyStream {
    type Item = NRes<Obj>;
    #[verifier::external_body]
    fn next(&mut self) -> Option<NRes<Obj>> { unimplemented!() }
}
impl AnyStream {
    // clone_box gives an independent stream in the same state
    #[verifier::external_body]
    pub fn clone_box(&self) -> (r: AnyStream) ensures r == *self { unimplemented!() }
    // Stream::force is `self.clone_box().collect()` into NRes<Vec<Obj>>: std collects up to the first Err (assumed)
    #[verifier::external_body]
    pub fn force(&self) -> (r: NRes<Vec<Obj>>)
        requires finite_iter(*self),
        ensures all_ok(self.remaining()) ==> (r is Ok && r->Ok_0@ == oks(self.remaining())), !all_ok(self.remaining()) ==> r is Err,
    { unimplemented!() }
}
pub open spec fn opt_lo(lo: Option<isize>) -> int { match lo { Some(l) => l as int, None => 0 } }
// `Rc::from(it)` in pythonic_slice turns the boxed stream into the shared handle stored in Seq::Stream
pub uninterp spec fn stream_of(s: StreamBox) -> AnyStream;
impl From<AnyStream> for Rc<StreamBox> {
    #[verifier::external_body]
    fn from(s: AnyStream) -> (r: Rc<StreamBox>) ensures stream_of(*r) == s { unimplemented!() }
}
impl vstd::std_specs::convert::FromSpecImpl<AnyStream> for Rc<StreamBox> {
    open spec fn obeys_from_spec() -> bool { false }
    open spec fn from_spec(v: AnyStream) -> Rc<StreamBox> { arbitrary() }
}
} // verus!
