// module
// ===== SPEC (chain): operator-precedence grouping of an infix chain (C03) =====
// Reference semantics = PRECEDENCE CLIMBING, written directly from the statement of C03 and independently of the
// pending-stack code:  `climb` parses "lhs f1 e1 f2 e2 ..." from position i, stopping at the first operator that the operator
// on its left is tighter than;  `group` gathers the operands of one operator: its right operand, then every following
// operator it chains with (merging into one n-ary application that keeps the first operator's precedence), then applies it.
// Values are terms over the uninterpreted run_spec / chain_spec, i.e. the expression tree; None = some application failed.
verus! {

// "tighter operators apply first and, at equal precedence, the left operator's associativity decides" (NaN counts as a tie)
pub open spec fn tighter(left: Precedence, right: Precedence) -> bool {
    match fv_partial_cmp(fv(left.0), fv(right.0)) {
        Some(Ordering::Greater) => true,
        Some(Ordering::Less) => false,
        _ => left.1 is Left,
    }
}

// one "f e" step of the chain e0 f1 e1 ... fn en
pub struct Tok { pub f: Func, pub p: Precedence, pub e: Obj }
pub open spec fn at(ops: VSeq<Tok>, i: int, f: Func, p: Precedence, e: Obj) -> bool {
    0 <= i < ops.len() && ops[i] == (Tok { f: f, p: p, e: e })
}
pub open spec fn clamp_lo(j: int, lo: int) -> int { if j < lo { lo } else { j } }
pub open spec fn left_to_go(ops: VSeq<Tok>, i: int) -> int { if i < ops.len() { ops.len() - i } else { 0 } }

pub open spec fn climb(ops: VSeq<Tok>, lhs: Obj, i: int, left: Option<Precedence>) -> Option<(Obj, int)>
    decreases left_to_go(ops, i), 2int
{
    if i < 0 || i >= ops.len() { Some((lhs, i)) }
    else if left is Some && tighter(left->Some_0, ops[i].p) { Some((lhs, i)) }      // the operator on the left applies first
    else {
        match group(ops, seq![lhs], ops[i].f, ops[i].p, i) {
            None => None,
            Some((x, j)) => climb(ops, x, clamp_lo(j, i + 1), left),
        }
    }
}
// operands gathered so far `args`, operator `op` with precedence `p`; ops[i].e starts its next operand
pub open spec fn group(ops: VSeq<Tok>, args: VSeq<Obj>, op: Func, p: Precedence, i: int) -> Option<(Obj, int)>
    decreases left_to_go(ops, i), 1int
{
    if i < 0 || i >= ops.len() { None }
    else {
        match climb(ops, ops[i].e, i + 1, Some(p)) {
            None => None,
            Some((v, j)) => group_tail(ops, args.push(v), op, p, clamp_lo(j, i + 1)),
        }
    }
}
// after an operand: merge with a chainable operator that `p` is tighter than, otherwise apply
pub open spec fn group_tail(ops: VSeq<Tok>, args: VSeq<Obj>, op: Func, p: Precedence, j: int) -> Option<(Obj, int)>
    decreases left_to_go(ops, j), 2int
{
    if 0 <= j < ops.len() && chain_spec(op, ops[j].f) is Some {
        group(ops, args, chain_spec(op, ops[j].f)->Some_0, p, j)
    } else {
        match run_spec(op, args) { Ok(x) => Some((x, j)), Err(_) => None }
    }
}
// the value of the whole chain e0 f1 e1 ... fn en
pub open spec fn chain_value(e0: Obj, ops: VSeq<Tok>) -> Option<(Obj, int)> { climb(ops, e0, 0, None) }

// ---- what a configuration of the evaluator denotes: every pending frame is a `group` waiting for its right operand, whose
//      parse currently has `rightmost` as left-hand side ----
pub type PFrame = (Vec<Obj>, Func, Precedence, CodeLoc, CodeLoc);
pub open spec fn denote(ops: VSeq<Tok>, fs: VSeq<PFrame>, r: Obj, i: int) -> Option<(Obj, int)>
    decreases fs.len()
{
    if fs.len() == 0 { climb(ops, r, i, None) }
    else {
        let top = fs.last();
        match climb(ops, r, i, Some(top.2)) {
            None => None,
            Some((v, j)) => match group_tail(ops, top.0@.push(v), top.1, top.2, j) {
                None => None,
                Some((x, j2)) => denote(ops, fs.drop_last(), x, j2),
            },
        }
    }
}

// ---- PROVED lemmas ----
// positions only move forward
pub proof fn lemma_mono(ops: VSeq<Tok>, lhs: Obj, args: VSeq<Obj>, op: Func, p: Precedence, i: int, left: Option<Precedence>)
    ensures
        climb(ops, lhs, i, left) is Some ==> climb(ops, lhs, i, left)->Some_0.1 >= i,
        (0 <= i < ops.len() && group(ops, args, op, p, i) is Some) ==> group(ops, args, op, p, i)->Some_0.1 >= i + 1,
        group_tail(ops, args, op, p, i) is Some ==> group_tail(ops, args, op, p, i)->Some_0.1 >= i,
    decreases left_to_go(ops, i), 3int
{
    if 0 <= i < ops.len() {
        // group
        match climb(ops, ops[i].e, i + 1, Some(p)) {
            None => {},
            Some((v, j)) => { lemma_mono(ops, lhs, args.push(v), op, p, clamp_lo(j, i + 1), left); }
        }
        // group_tail
        if chain_spec(op, ops[i].f) is Some {
            let m = chain_spec(op, ops[i].f)->Some_0;
            match climb(ops, ops[i].e, i + 1, Some(p)) {
                None => {},
                Some((v, j)) => { lemma_mono(ops, lhs, args.push(v), m, p, clamp_lo(j, i + 1), left); }
            }
        }
        // climb
        if !(left is Some && tighter(left->Some_0, ops[i].p)) {
            match climb(ops, ops[i].e, i + 1, Some(ops[i].p)) {
                None => {},
                Some((v, j)) => { lemma_mono(ops, lhs, seq![lhs].push(v), ops[i].f, ops[i].p, clamp_lo(j, i + 1), left); }
            }
            match group(ops, seq![lhs], ops[i].f, ops[i].p, i) {
                None => {},
                Some((x, j)) => { lemma_mono(ops, x, args, op, p, clamp_lo(j, i + 1), left); }
            }
        }
    }
}

// a new operator that the top frame is NOT tighter than is pushed
pub proof fn lemma_push(ops: VSeq<Tok>, fs: VSeq<PFrame>, r: Obj, i: int, fr: PFrame)
    requires
        0 <= i < ops.len(),
        fs.len() == 0 || !tighter(fs.last().2, ops[i].p),
        fr.0@ == seq![r], fr.1 == ops[i].f, fr.2 == ops[i].p,
    ensures denote(ops, fs, r, i) == denote(ops, fs.push(fr), ops[i].e, i + 1)
{
    reveal_with_fuel(denote, 2);
    let fs2 = fs.push(fr);
    assert(fs2.drop_last() == fs);
    assert(fs2.last() == fr);
    let e = ops[i].e; let f = ops[i].f; let p = ops[i].p;
    let left: Option<Precedence> = if fs.len() == 0 { None } else { Some(fs.last().2) };
    // both sides start by parsing the right operand of f
    let c = climb(ops, e, i + 1, Some(p));
    assert(group(ops, seq![r], f, p, i) == (match c { None => None::<(Obj, int)>, Some((v, j)) => group_tail(ops, seq![r].push(v), f, p, clamp_lo(j, i + 1)) }));
    assert(climb(ops, r, i, left) == (match group(ops, seq![r], f, p, i) { None => None::<(Obj, int)>, Some((x, j2)) => climb(ops, x, clamp_lo(j2, i + 1), left) }));
    match c {
        None => {
            assert(denote(ops, fs2, e, i + 1) is None);
            assert(climb(ops, r, i, left) is None);
        },
        Some((v, j)) => {
            lemma_mono(ops, e, seq![r], f, p, i + 1, Some(p));
            assert(clamp_lo(j, i + 1) == j);
            let g = group_tail(ops, seq![r].push(v), f, p, j);
            match g {
                None => {
                    assert(denote(ops, fs2, e, i + 1) is None);
                    assert(climb(ops, r, i, left) is None);
                },
                Some((x, j2)) => {
                    lemma_mono(ops, x, seq![r].push(v), f, p, j, None);
                    assert(clamp_lo(j2, i + 1) == j2);
                    assert(denote(ops, fs2, e, i + 1) == denote(ops, fs, x, j2));
                    assert(climb(ops, r, i, left) == climb(ops, x, j2, left));
                }
            }
        }
    }
}

// the top frame is tighter than the new operator and chains with it: merge, keeping the frame's precedence
pub proof fn lemma_chain(ops: VSeq<Tok>, fs: VSeq<PFrame>, r: Obj, i: int, fr: PFrame)
    requires
        0 <= i < ops.len(), fs.len() > 0,
        tighter(fs.last().2, ops[i].p),
        chain_spec(fs.last().1, ops[i].f) is Some,
        fr.0@ == fs.last().0@.push(r), fr.1 == chain_spec(fs.last().1, ops[i].f)->Some_0, fr.2 == fs.last().2,
    ensures denote(ops, fs, r, i) == denote(ops, fs.drop_last().push(fr), ops[i].e, i + 1)
{
    let fs2 = fs.drop_last().push(fr);
    assert(fs2.drop_last() == fs.drop_last());
    assert(fs2.last() == fr);
    let top = fs.last();
    assert(climb(ops, r, i, Some(top.2)) == Some((r, i)));
    match climb(ops, ops[i].e, i + 1, Some(top.2)) {
        None => {},
        Some((v, j)) => {
            lemma_mono(ops, ops[i].e, seq![r], ops[i].f, ops[i].p, i + 1, Some(top.2));
            assert(clamp_lo(j, i + 1) == j);
        }
    }
}

// the top frame is tighter than the new operator (or the input is exhausted) and does not chain: apply it
pub proof fn lemma_run(ops: VSeq<Tok>, fs: VSeq<PFrame>, r: Obj, i: int, x: Obj)
    requires
        fs.len() > 0,
        i >= ops.len() || (0 <= i && tighter(fs.last().2, ops[i].p) && chain_spec(fs.last().1, ops[i].f) is None),
        run_spec(fs.last().1, fs.last().0@.push(r)) == Ok::<Obj, NErr>(x),
    ensures denote(ops, fs, r, i) == denote(ops, fs.drop_last(), x, i)
{
    let top = fs.last();
    assert(climb(ops, r, i, Some(top.2)) == Some((r, i)));
}

pub proof fn lemma_done(ops: VSeq<Tok>, r: Obj)
    ensures denote(ops, VSeq::<PFrame>::empty(), r, ops.len() as int) == Some((r, ops.len() as int))
{
}

} // verus!
