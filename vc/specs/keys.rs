// ===== SPEC (keys): dictionary-key equality on interpreter values =====
verus! {
// element-wise key equality of sequences: ASSUMED for total_eq_of_key_seqs (iterator adapters are outside Verus)
pub uninterp spec fn key_seq_eq(a: Seq, b: Seq) -> bool;
// keys are equal when both are null, or numbers that are == (NaN equal to itself), or key-equal sequences
pub open spec fn key_eq(a: Obj, b: Obj) -> bool {
    match (a, b) {
        (Obj::Null, Obj::Null) => true,
        (Obj::Num(x), Obj::Num(y)) => key_num_eq(x@, y@),
        (Obj::Seq(x), Obj::Seq(y)) => key_seq_eq(x, y),
        _ => false,
    }
}
} // verus!
