// ===== SPEC (keys): dictionary keys on interpreter values: validity, equality, hashing =====
verus! {
// ---- the dictionary storage is opaque (std HashMap): what is assumed about it ----
pub uninterp spec fn dict_values_hashable(d: DictMap) -> bool;      // every stored value is itself a valid key
pub uninterp spec fn dict_key_eq(a: DictMap, b: DictMap) -> bool;    // same key set and key-equal values (total_eq_of_key_seqs, Dict arm)

// a value may be used as a dictionary key: null, numbers, text, bytes, vectors, and lists / dictionaries of such values
pub open spec fn hashable(o: Obj) -> bool decreases o {
    match o {
        Obj::Null => true,
        Obj::Num(_) => true,
        Obj::Seq(Seq::String(_)) => true,
        Obj::Seq(Seq::List(xs)) => forall|i: int| 0 <= i < xs@.len() ==> hashable(#[trigger] xs@[i]),
        Obj::Seq(Seq::Dict(d, _)) => dict_values_hashable(*d),
        Obj::Seq(Seq::Vector(_)) => true,
        Obj::Seq(Seq::Bytes(_)) => true,
        Obj::Seq(Seq::Stream(_)) => false,
        Obj::Func(..) => false,
        Obj::Instance(..) => false,
    }
}
// no dictionary anywhere inside (the words a dictionary hashes to go through std's DefaultHasher and are not modelled)
pub open spec fn dict_free(o: Obj) -> bool decreases o {
    match o {
        Obj::Seq(Seq::List(xs)) => forall|i: int| 0 <= i < xs@.len() ==> dict_free(#[trigger] xs@[i]),
        Obj::Seq(Seq::Dict(..)) => false,
        _ => true,
    }
}
pub open spec fn vec_num_eq(a: VSeq<NNum>, b: VSeq<NNum>) -> bool {
    a.len() == b.len() && forall|i: int| 0 <= i < a.len() ==> key_num_eq((#[trigger] a[i])@, b[i]@)
}
// keys are equal when both are null, or numbers that are == (NaN equal to itself), or sequences of the same kind that are
// element-wise key-equal
pub open spec fn key_eq(a: Obj, b: Obj) -> bool decreases a {
    match (a, b) {
        (Obj::Null, Obj::Null) => true,
        (Obj::Num(x), Obj::Num(y)) => key_num_eq(x@, y@),
        (Obj::Seq(Seq::List(x)), Obj::Seq(Seq::List(y))) => x@.len() == y@.len() && forall|i: int| 0 <= i < x@.len() ==> key_eq(#[trigger] x@[i], y@[i]),
        (Obj::Seq(Seq::Dict(x, _)), Obj::Seq(Seq::Dict(y, _))) => dict_key_eq(*x, *y),
        (Obj::Seq(Seq::String(x)), Obj::Seq(Seq::String(y))) => x@ == y@,
        (Obj::Seq(Seq::Vector(x)), Obj::Seq(Seq::Vector(y))) => vec_num_eq(x@, y@),
        (Obj::Seq(Seq::Bytes(x)), Obj::Seq(Seq::Bytes(y))) => x@ == y@,
        _ => false,
    }
}
pub open spec fn key_seq_eq(a: Seq, b: Seq) -> bool { key_eq(Obj::Seq(a), Obj::Seq(b)) }

// ---- the words a key writes into a hasher ----
pub open spec fn list_len(o: Obj) -> nat { match o { Obj::Seq(Seq::List(xs)) => xs@.len(), _ => 0 } }
pub open spec fn vec_words(v: VSeq<NNum>, n: nat) -> VSeq<HWord> decreases n {
    if n == 0 || n > v.len() { VSeq::empty() } else { vec_words(v, (n - 1) as nat) + num_hash_words(v[n - 1]@) }
}
// words written for the first n elements of the list o
pub open spec fn list_words(o: Obj, n: nat) -> VSeq<HWord> decreases o, n {
    match o {
        Obj::Seq(Seq::List(xs)) => if n == 0 || n > xs@.len() { VSeq::empty() } else { list_words(o, (n - 1) as nat) + key_words(xs@[n - 1]) },
        _ => VSeq::empty(),
    }
}
pub open spec fn key_words(o: Obj) -> VSeq<HWord> decreases o, list_len(o) + 1 {
    match o {
        Obj::Null => seq![HWord::U8(0)],
        Obj::Num(n) => seq![HWord::U8(1)] + num_hash_words(n@),
        Obj::Seq(Seq::String(s)) => seq![HWord::U8(2), HWord::Str(s@)],
        Obj::Seq(Seq::List(xs)) => seq![HWord::U8(3), HWord::Usize(xs@.len() as usize)] + list_words(o, xs@.len()),
        Obj::Seq(Seq::Vector(v)) => seq![HWord::U8(5), HWord::Usize(v@.len() as usize)] + vec_words(v@, v@.len()),
        Obj::Seq(Seq::Bytes(b)) => seq![HWord::U8(6), HWord::ByteStr(b@)],
        _ => VSeq::empty(),
    }
}

// ---- equal keys hash equally, for keys of any nesting depth without dictionaries inside ----
pub proof fn lemma_vec_words(a: VSeq<NNum>, b: VSeq<NNum>, n: nat)
    requires vec_num_eq(a, b), n <= a.len(),
    ensures vec_words(a, n) == vec_words(b, n),
    decreases n
{
    if n > 0 {
        lemma_vec_words(a, b, (n - 1) as nat);
        assert(key_num_eq(a[n - 1]@, b[n - 1]@));
        lemma_equal_keys_hash_equally(a[n - 1]@, b[n - 1]@);
    }
}
pub proof fn lemma_list_words(a: Obj, b: Obj, n: nat)
    requires a is Seq, a->Seq_0 is List, b is Seq, b->Seq_0 is List, key_eq(a, b), dict_free(a), dict_free(b), n <= list_len(a),
    ensures list_words(a, n) == list_words(b, n),
    decreases a, n
{
    if n > 0 {
        lemma_list_words(a, b, (n - 1) as nat);
        let x = a->Seq_0->List_0; let y = b->Seq_0->List_0;
        assert(key_eq(x@[n - 1], y@[n - 1]));
        assert(dict_free(x@[n - 1]) && dict_free(y@[n - 1]));
        lemma_key_words_of_equal_keys(x@[n - 1], y@[n - 1]);
    }
}
pub proof fn lemma_key_words_of_equal_keys(a: Obj, b: Obj)
    requires key_eq(a, b), dict_free(a), dict_free(b),
    ensures key_words(a) == key_words(b),
    decreases a, list_len(a) + 1
{
    match (a, b) {
        (Obj::Num(x), Obj::Num(y)) => { lemma_equal_keys_hash_equally(x@, y@); }
        (Obj::Seq(Seq::List(x)), Obj::Seq(Seq::List(y))) => { lemma_list_words(a, b, x@.len()); }
        (Obj::Seq(Seq::Vector(x)), Obj::Seq(Seq::Vector(y))) => { lemma_vec_words(x@, y@, x@.len()); }
        _ => {}
    }
}
} // verus!
verus! {
// ---- stubs for the opaque dictionary and std's hasher (assumed) ----
#[verifier::external_body] pub struct DictValues<'a> { _p: &'a u8 }
#[verifier::external_body] pub struct DictIter<'a> { _p: &'a u8 }
impl<'a> Iterator for DictValues<'a> { type Item = &'a Obj; #[verifier::external_body] fn next(&mut self) -> Option<&'a Obj> { unimplemented!() } }
impl<'a> Iterator for DictIter<'a> { type Item = (&'a ObjKey, &'a Obj); #[verifier::external_body] fn next(&mut self) -> Option<(&'a ObjKey, &'a Obj)> { unimplemented!() } }
impl DictMap {
    // a dictionary is a valid key exactly when all its values are (its keys were made by to_key)
    #[verifier::external_body]
    pub fn values(&self) -> (r: DictValues<'_>)
        ensures finite_iter(r), dict_values_hashable(*self) <==> (forall|i: int| 0 <= i < r.remaining().len() ==> hashable(*#[trigger] r.remaining()[i])),
            // the values are stored inside the map (structurally smaller)
            forall|i: int| 0 <= i < r.remaining().len() ==> dict_contains_value(*self, *#[trigger] r.remaining()[i])
    { unimplemented!() }
    #[verifier::external_body]
    pub fn iter(&self) -> (r: DictIter<'_>)
        ensures finite_iter(r), forall|i: int| 0 <= i < r.remaining().len() ==> hashable((#[trigger] r.remaining()[i]).0.0),
            dict_values_hashable(*self) ==> (forall|i: int| 0 <= i < r.remaining().len() ==> hashable(*(#[trigger] r.remaining()[i]).1)),
            forall|i: int| 0 <= i < r.remaining().len() ==> dict_contains_key(*self, *(#[trigger] r.remaining()[i]).0) && dict_contains_value(*self, *r.remaining()[i].1)
    { unimplemented!() }
}
pub uninterp spec fn dict_contains_value(d: DictMap, v: Obj) -> bool;
pub uninterp spec fn dict_contains_key(d: DictMap, k: ObjKey) -> bool;
#[verifier::external_body]
pub proof fn axiom_dict_key_smaller(o: Obj, k: ObjKey)
    requires o is Seq, o->Seq_0 is Dict, dict_contains_key(*o->Seq_0->Dict_0, k),
    ensures decreases_to!(o => k.0),
{}
// a value stored in a map is structurally smaller than the (shared) map: needed only for the termination of recursive walks
#[verifier::external_body]
pub proof fn axiom_dict_value_smaller(o: Obj, v: Obj)
    requires o is Seq, o->Seq_0 is Dict, dict_contains_value(*o->Seq_0->Dict_0, v),
    ensures decreases_to!(o => v),
{}
#[verifier::external_body] pub struct DefaultHasher { _p: u8 }
pub uninterp spec fn default_hasher_log(h: DefaultHasher) -> VSeq<HWord>;
pub uninterp spec fn finish_spec(l: VSeq<HWord>) -> u64;
impl Hasher for DefaultHasher {
    open spec fn hlog(&self) -> VSeq<HWord> { default_hasher_log(*self) }
    #[verifier::external_body] fn write_i64(&mut self, x: i64) { unimplemented!() }
    #[verifier::external_body] fn write_u64(&mut self, x: u64) { unimplemented!() }
    #[verifier::external_body] fn write_u8(&mut self, x: u8) { unimplemented!() }
    #[verifier::external_body] fn write_usize(&mut self, x: usize) { unimplemented!() }
}
impl DefaultHasher {
    #[verifier::external_body] pub fn new() -> (r: DefaultHasher) ensures r.hlog() == VSeq::<HWord>::empty() { unimplemented!() }
    #[verifier::external_body] pub fn finish(&self) -> (r: u64) ensures r == finish_spec(self.hlog()) { unimplemented!() }
}

pub open spec fn finite_iter<I: Iterator>(it: I) -> bool { it.obeys_prophetic_iter_laws() && it.decrease() is Some }
impl StreamBox {
    // dyn Stream::force (forces the stream into a list; iteration is not modelled here)
    #[verifier::external_body]
    pub fn force(&self) -> (r: NRes<Vec<Obj>>) { unimplemented!() }
}
} // verus!
