// ===== TRUSTED (interp): interpreter operations on the value enums that verified functions call but that are not
// themselves verified here (assumed contracts) =====
verus! {
// what a function value returns when run: an uninterpreted function of (callee, arguments); effects are not modelled
pub uninterp spec fn run_spec(f: Func, args: VSeq<Obj>) -> NRes<Obj>;
impl Func {
    #[verifier::external_body]
    pub fn run1(&self, env: &REnv, arg: Obj) -> (r: NRes<Obj>) ensures r == run_spec(*self, seq![arg]) { unimplemented!() }
}
impl Clone for Obj { #[verifier::external_body] fn clone(&self) -> (r: Obj) ensures r == *self { unimplemented!() } }
pub uninterp spec fn truthy_spec(o: Obj) -> bool;
impl Obj {
    #[verifier::external_body]
    pub fn truthy(&self) -> (r: bool) ensures r == truthy_spec(*self) { unimplemented!() }
}
} // verus!
