// ===== TRUSTED (interp): interpreter operations on the value enums that verified functions call but that are not
// themselves verified here (assumed contracts) =====
verus! {
// what a function value returns when run: an uninterpreted function of (callee, arguments); effects are not modelled
pub uninterp spec fn run_spec(f: Func, args: VSeq<Obj>) -> NRes<Obj>;
impl Func {
    #[verifier::external_body]
    pub fn run1(&self, env: &REnv, arg: Obj) -> (r: NRes<Obj>) ensures r == run_spec(*self, seq![arg]) { unimplemented!() }
}
impl Func {
    #[verifier::external_body]
    pub fn run(&self, env: &REnv, args: Vec<Obj>) -> (r: NRes<Obj>) ensures r == run_spec(*self, args@) { unimplemented!() }
    // whether (and into what) two adjacent operators of a chain merge; a function of the two operator values
    #[verifier::external_body]
    pub fn try_chain(&self, other: &Func) -> (r: Option<Func>) ensures r == chain_spec(*self, *other) { unimplemented!() }
}
pub uninterp spec fn chain_spec(f: Func, g: Func) -> Option<Func>;
// add_trace only decorates errors: Ok values pass through unchanged
#[verifier::external_body]
pub fn add_trace<T, F: FnOnce() -> String>(res: NRes<T>, thing: F, start: CodeLoc, end: CodeLoc) -> (r: NRes<T>)
    ensures res is Ok ==> r == res, res is Err ==> r is Err
{ unimplemented!() }
impl NErr {
    // core.rs: both are NErr::throw(format!(..type names..))
    #[verifier::external_body]
    pub fn argument_error_first(x: &Obj) -> (r: NErr) ensures err_class(r) == ErrClass::Throw { unimplemented!() }
    #[verifier::external_body]
    pub fn argument_error_2(x: &Obj, y: &Obj) -> (r: NErr) ensures err_class(r) == ErrClass::Throw { unimplemented!() }
}
impl Default for Obj { #[verifier::external_body] fn default() -> (r: Obj) ensures r == Obj::Null { unimplemented!() } }
#[verifier::external_body]
pub fn soft_from_utf8(bs: Vec<u8>) -> (r: Obj) { unimplemented!() }
impl StreamBox {
    // dyn Stream::pythonic_index_isize (iteration / forcing); not verified here
    #[verifier::external_body]
    pub fn pythonic_index_isize(&self, i: isize) -> (r: NRes<Obj>) { unimplemented!() }
}
impl StreamBox {
    // dyn Stream::pythonic_slice (iteration / forcing); not verified here
    #[verifier::external_body]
    pub fn pythonic_slice(&self, lo: Option<isize>, hi: Option<isize>) -> (r: NRes<Seq>) { unimplemented!() }
}
// dictionary storage: opaque here (std HashMap over ObjKey); lookups are uninterpreted
pub uninterp spec fn dict_get_spec(d: DictMap, k: ObjKey) -> Option<Obj>;
impl DictMap {
    #[verifier::external_body]
    pub fn get(&self, k: &ObjKey) -> (r: Option<&Obj>) ensures (r is Some) == (dict_get_spec(*self, *k) is Some), r is Some ==> *r->Some_0 == dict_get_spec(*self, *k)->Some_0 { unimplemented!() }
}
#[verifier::external_body]
pub fn symbol_access(obj: Obj, sym: &str) -> (r: NRes<Obj>) { unimplemented!() }
impl PartialEqSpecImpl for Struct {
    open spec fn obeys_eq_spec() -> bool { true }
    open spec fn eq_spec(&self, o: &Struct) -> bool { self.id == o.id }
}
impl PartialEq for Struct { #[verifier::external_body] fn eq(&self, o: &Struct) -> (r: bool) ensures r == (self.id == o.id) { unimplemented!() } }
impl From<f64> for Obj { #[verifier::external_body] fn from(x: f64) -> (r: Obj) ensures r == Obj::Num(NNum::Float(x)) { unimplemented!() } }
impl Clone for Obj { #[verifier::external_body] fn clone(&self) -> (r: Obj) ensures r == *self { unimplemented!() } }
pub uninterp spec fn truthy_spec(o: Obj) -> bool;
impl Obj {
    #[verifier::external_body]
    pub fn truthy(&self) -> (r: bool) ensures r == truthy_spec(*self) { unimplemented!() }
}
} // verus!
