// module
// ===== SPEC (prime): primality by definition, and the PROVED lemmas behind 6k+-1 trial division =====
verus! {
use vstd::arithmetic::div_mod::{lemma_fundamental_div_mod, lemma_mod_multiples_basic};

pub open spec fn is_prime(n: int) -> bool { n >= 2 && forall|d: int| 2 <= d < n ==> #[trigger] (n % d) != 0 }

// a multiple of k cannot divide n unless k does
pub proof fn lemma_factor_of_divisor(n: int, d: int, k: int)
    requires d > 0, k > 0, d % k == 0, n % d == 0
    ensures n % k == 0
{
    lemma_fundamental_div_mod(n, d);
    lemma_fundamental_div_mod(d, k);
    let a = n / d; let b = d / k;
    assert(n == d * a);
    assert(d == k * b);
    assert(n == (b * a) * k) by(nonlinear_arith) requires n == d * a, d == k * b;
    lemma_mod_multiples_basic(b * a, k);
}

// no divisor below f and f beyond the integer square root: prime
pub proof fn lemma_prime_from_small(n: int, f: int, s: int)
    requires n >= 2, s >= 0, s * s <= n < (s + 1) * (s + 1), f > s,
             forall|d: int| 2 <= d < f ==> #[trigger] (n % d) != 0,
    ensures is_prime(n)
{
    assert forall|d: int| 2 <= d < n implies #[trigger] (n % d) != 0 by {
        if d >= f && n % d == 0 {
            lemma_fundamental_div_mod(n, d);
            let e = n / d;
            assert(n == d * e);
            assert(e >= 2) by(nonlinear_arith) requires n == d * e, 2 <= d < n, n >= 2;
            if e >= s + 1 {
                assert(d * e >= (s + 1) * (s + 1)) by(nonlinear_arith) requires d >= s + 1, e >= s + 1, s >= 0;
            }
            assert(e < f);
            assert(n == e * d) by(nonlinear_arith) requires n == d * e;
            lemma_mod_multiples_basic(d, e);
            assert(n % e == 0);
        }
    }
}
} // verus!
