// ===== SPEC (nint): the abstract value of an NInt and the reference functions of C06 =====
verus! {

broadcast use lemma_i64_not, int_and_i64, int_or_i64, int_xor_i64, biguint_nonneg, bigint_ext, lemma_trunc_div_i64_range, int_sqrt_bounds;

impl View for NInt {
    type V = int;
    open spec fn view(&self) -> int {
        match self { NInt::Small(n) => *n as int, NInt::Big(b) => b@ }
    }
}

// "equal keys hash equally": the word(s) an integer contributes to a hasher depend on its value only
pub open spec fn nint_hash_word(x: int) -> HWord {
    if fits_i64(x) { HWord::I64(x as i64) } else { HWord::Big(x) }
}

// product of 1 .. n-1 (what NInt::factorial computes for its argument n; the builtin passes n+1)
pub open spec fn int_fact_below(n: int) -> int decreases n {
    if n <= 1 { 1 } else { int_fact_below(n - 1) * (n - 1) }
}

// comparison operators on NInt obtain their meaning from the verified impls
impl PartialEqSpecImpl for NInt {
    open spec fn obeys_eq_spec() -> bool { true }
    open spec fn eq_spec(&self, o: &NInt) -> bool { self@ == o@ }
}
impl PartialOrdSpecImpl for NInt {
    open spec fn obeys_partial_cmp_spec() -> bool { true }
    open spec fn partial_cmp_spec(&self, o: &NInt) -> Option<Ordering> { Some(cmp_int(self@, o@)) }
}
impl OrdSpecImpl for NInt {
    open spec fn obeys_cmp_spec() -> bool { true }
    open spec fn cmp_spec(&self, o: &NInt) -> Ordering { cmp_int(self@, o@) }
}

} // verus!
verus! {
impl Eq for NInt {}
}
