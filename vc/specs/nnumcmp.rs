// ===== SPEC (nnumcmp): exact comparison across levels (C08) and value-determined hashing (C09) =====
verus! {

broadcast use lemma_trunc_floor_int, bool_ord, f_bits_inf, lemma_hwords_assoc;

// exact extended-real value of a real number of any level
pub open spec fn rv(x: NNumReal) -> FV {
    match x { NNumReal::Int(i) => FV::Fin(ir(i@)), NNumReal::Rational(r) => FV::Fin(r@), NNumReal::Float(f) => fv(f) }
}
// (real part, imaginary part) as exact values; reals have imaginary part 0
pub open spec fn proj(v: NumV) -> (FV, FV) {
    match v {
        NumV::Int(i) => (FV::Fin(ir(i)), FV::Fin(0real)),
        NumV::Rat(x) => (FV::Fin(x), FV::Fin(0real)),
        NumV::Flt(f) => (fv(f), FV::Fin(0real)),
        NumV::Cpx(z) => (fv(z.re), fv(z.im)),
    }
}
// `==` on numbers: same exact value, NaN equal to nothing
pub open spec fn num_eq_spec(a: NumV, b: NumV) -> bool { fv_eq(proj(a).0, proj(b).0) && fv_eq(proj(a).1, proj(b).1) }
// `<=>`: lexicographic on (re, im); None iff a deciding component is NaN
pub open spec fn num_partial_cmp_spec(a: NumV, b: NumV) -> Option<Ordering> {
    match fv_partial_cmp(proj(a).0, proj(b).0) {
        Some(Ordering::Equal) => fv_partial_cmp(proj(a).1, proj(b).1),
        other => other,
    }
}
// the total orders behind min / max: NaN compares equal to NaN and below (nan_big == false) or above (true) everything else
pub open spec fn total_cmp_spec(a: FV, b: FV, nan_big: bool) -> Ordering {
    match fv_partial_cmp(a, b) {
        Some(o) => o,
        None => if a is NaN && b is NaN { Ordering::Equal }
                else if a is NaN { if nan_big { Ordering::Greater } else { Ordering::Less } }
                else { if nan_big { Ordering::Less } else { Ordering::Greater } },
    }
}
pub open spec fn num_is_nan(v: NumV) -> bool { proj(v).0 is NaN || proj(v).1 is NaN }
// dictionary-key equality: `==`, with NaN equal to itself
pub open spec fn key_num_eq(a: NumV, b: NumV) -> bool { num_eq_spec(a, b) || (num_is_nan(a) && num_is_nan(b)) }

// ---- hashing: the words a number writes are a function of its exact value, so equal keys hash equally (C09) ----
pub open spec fn NAN_WORD() -> HWord { HWord::U64(0x7FF0000000000001u64) }
// words for a non-integral finite value: the lowest-terms numerator and denominator (the same for a float and for the
// equal rational)
pub open spec fn frac_hash_words(x: real) -> VSeq<HWord> { seq![HWord::Big(rat_numer(x)), HWord::Big(rat_denom(x))] }
pub open spec fn fin_hash_words(x: real) -> VSeq<HWord> {
    if x == ir(x.floor()) { seq![nint_hash_word(x.floor())] } else { frac_hash_words(x) }
}
pub open spec fn real_hash_words(v: FV) -> VSeq<HWord> {
    match v {
        FV::Fin(x) => fin_hash_words(x),
        FV::NaN => seq![NAN_WORD()],
        FV::PosInf => seq![HWord::U64(0x7FF0000000000000u64)],
        FV::NegInf => seq![HWord::U64(0xFFF0000000000000u64)],
    }
}
pub open spec fn num_hash_words(v: NumV) -> VSeq<HWord> {
    if num_is_nan(v) { seq![NAN_WORD()] } else {
        match v {
            NumV::Int(i) => seq![nint_hash_word(i)],
            NumV::Rat(x) => fin_hash_words(x),
            NumV::Flt(f) => real_hash_words(fv(f)),
            // a complex number with zero imaginary part is == to its real part and must hash like it
            NumV::Cpx(z) => if fv_eq(fv(z.im), FV::Fin(0real)) { real_hash_words(fv(z.re)) } else { real_hash_words(fv(z.re)) + real_hash_words(fv(z.im)) },
        }
    }
}

// THE LAW (C09): numbers that are equal as dictionary keys write the same words
pub proof fn lemma_equal_keys_hash_equally(a: NumV, b: NumV)
    requires key_num_eq(a, b)
    ensures num_hash_words(a) == num_hash_words(b)
{
}
// and the key equality is an equivalence relation (reflexive incl. NaN, symmetric, transitive)
pub proof fn lemma_key_eq_equivalence(a: NumV, b: NumV, c: NumV)
    ensures key_num_eq(a, a), key_num_eq(a, b) == key_num_eq(b, a), (key_num_eq(a, b) && key_num_eq(b, c)) ==> key_num_eq(a, c)
{
}

} // verus!
verus! {
// the comparison operators on NNumReal / NNum obtain their meaning from the verified impls
impl<'a> PartialEqSpecImpl for NNumReal<'a> {
    open spec fn obeys_eq_spec() -> bool { true }
    open spec fn eq_spec(&self, o: &NNumReal<'a>) -> bool { fv_eq(rv(*self), rv(*o)) }
}
impl<'a> PartialOrdSpecImpl for NNumReal<'a> {
    open spec fn obeys_partial_cmp_spec() -> bool { true }
    open spec fn partial_cmp_spec(&self, o: &NNumReal<'a>) -> Option<Ordering> { fv_partial_cmp(rv(*self), rv(*o)) }
}
impl PartialEqSpecImpl for NNum {
    open spec fn obeys_eq_spec() -> bool { true }
    open spec fn eq_spec(&self, o: &NNum) -> bool { num_eq_spec(self@, o@) }
}
impl PartialOrdSpecImpl for NNum {
    open spec fn obeys_partial_cmp_spec() -> bool { true }
    open spec fn partial_cmp_spec(&self, o: &NNum) -> Option<Ordering> { num_partial_cmp_spec(self@, o@) }
}
} // verus!
