// ===== SPEC (nnum): abstract value of an NNum and the numeric tower of C07 =====
verus! {

broadcast use f64_add_req, f64_sub_req, f64_mul_req, f64_div_req, f64_rem_req, f64_add_val, f64_sub_val, f64_mul_val, f64_div_val,
    f64_eq_val, f64_ne_val, f64_lt_val, f64_gt_val, f64_partial_cmp_val, f64_cmp_specs, f64_zero_literal, f_neg_value, f_consts,
    bigrational_ext, rat_of_int_numer_denom, lemma_ir_floor, lemma_int_pow_nonzero, lemma_int_pow_zero_base;

pub enum NumV { Int(int), Rat(real), Flt(f64), Cpx(Complex64) }

impl View for NNum {
    type V = NumV;
    open spec fn view(&self) -> NumV {
        match self {
            NNum::Int(i) => NumV::Int(i@),
            NNum::Rational(r) => NumV::Rat((**r)@),
            NNum::Float(f) => NumV::Flt(*f),
            NNum::Complex(z) => NumV::Cpx(*z),
        }
    }
}

// the tower: int < rational < float < complex
pub open spec fn level(v: NumV) -> int { match v { NumV::Int(_) => 0, NumV::Rat(_) => 1, NumV::Flt(_) => 2, NumV::Cpx(_) => 3 } }

// conversions upward (what "converted operands" means at each level)
pub open spec fn rat_f64_or_inf(x: real) -> f64 {
    match rat_to_f64(x) { Some(f) => f, None => if x > 0real { F_INF() } else { F_NEG_INF() } }
}
pub open spec fn to_rat(v: NumV) -> real recommends level(v) <= 1 { match v { NumV::Int(i) => ir(i), NumV::Rat(r) => r, _ => 0real } }
pub open spec fn to_flt(v: NumV) -> f64 recommends level(v) <= 2 {
    match v { NumV::Int(i) => int_to_f64(i), NumV::Rat(r) => rat_f64_or_inf(r), NumV::Flt(f) => f, NumV::Cpx(z) => z.re }
}
pub open spec fn to_cpx(v: NumV) -> Complex64 { match v { NumV::Cpx(z) => z, other => c_of_f(to_flt(other)) } }

pub enum BinOp { Add, Sub, Mul, Rem, DivFloor, ModFloor }

pub open spec fn int_op(op: BinOp, a: int, b: int) -> int {
    match op {
        BinOp::Add => a + b, BinOp::Sub => a - b, BinOp::Mul => a * b,
        BinOp::Rem => trunc_rem(a, b),            // `%` truncates, dividend's sign
        BinOp::DivFloor => floor_div(a, b),       // `//` floors
        BinOp::ModFloor => floor_mod(a, b),       // `%%` divisor's sign, (a // b) * b + (a %% b) == a
    }
}
pub open spec fn rat_op(op: BinOp, a: real, b: real) -> real {
    match op {
        BinOp::Add => a + b, BinOp::Sub => a - b, BinOp::Mul => a * b,
        BinOp::Rem => real_trunc_rem(a, b),
        BinOp::DivFloor => ir((a / b).floor()),
        BinOp::ModFloor => a - b * ir((a / b).floor()),
    }
}
pub open spec fn flt_op(op: BinOp, a: f64, b: f64) -> f64 {
    match op {
        BinOp::Add => f_add(a, b), BinOp::Sub => f_sub(a, b), BinOp::Mul => f_mul(a, b), BinOp::Rem => f_rem(a, b),
        BinOp::DivFloor => f_div_euclid(a, b), BinOp::ModFloor => f_rem_euclid(a, b),
    }
}
pub uninterp spec fn c_div_floor(a: Complex64, b: Complex64) -> Complex64;
pub open spec fn cpx_op(op: BinOp, a: Complex64, b: Complex64) -> Complex64 {
    match op {
        BinOp::Add => c_add(a, b), BinOp::Sub => c_sub(a, b), BinOp::Mul => c_mul(a, b), BinOp::Rem => c_rem(a, b),
        BinOp::DivFloor => c_div_floor(a, b), BinOp::ModFloor => c_rem(a, b),
    }
}

// C07: "the result has the higher of the operands' levels and equals the operation carried out at that level on the
// converted operands"
pub open spec fn tower(op: BinOp, a: NumV, b: NumV) -> NumV {
    let l = if level(a) >= level(b) { level(a) } else { level(b) };
    if l == 3 { NumV::Cpx(cpx_op(op, to_cpx(a), to_cpx(b))) }
    else if l == 2 { NumV::Flt(flt_op(op, to_flt(a), to_flt(b))) }
    else if l == 1 { NumV::Rat(rat_op(op, to_rat(a), to_rat(b))) }
    else { NumV::Int(int_op(op, a->Int_0, b->Int_0)) }
}
// f64 `%` has no value specification in vstd: at float level only the level of the result is claimed for Rem
pub open spec fn tower_agrees(op: BinOp, a: NumV, b: NumV, r: NumV) -> bool {
    if op is Rem && level(tower(op, a, b)) == 2 { r is Flt } else { r == tower(op, a, b) }
}
// operands for which the exact levels divide by zero (the callers must exclude them; num-bigint / num-rational panic)
pub open spec fn exact_zero_divisor(a: NumV, b: NumV) -> bool {
    level(a) <= 1 && level(b) <= 1 && to_rat(b) == 0real
}

// `b.is_nonzero()`: exact zero at the exact levels, +-0.0 at the float level, 0+0i at the complex level
pub open spec fn num_nonzero(v: NumV) -> bool {
    match v {
        NumV::Int(i) => i != 0, NumV::Rat(x) => x != 0real,
        NumV::Flt(f) => !fv_eq(fv(f), FV::Fin(0real)),
        NumV::Cpx(z) => !(fv_eq(fv(z.re), FV::Fin(0real)) && fv_eq(fv(z.im), FV::Fin(0real))),
    }
}

// integer rounding family on the tower
pub open spec fn round_family(v: NumV, f: spec_fn(real) -> int) -> Option<NumV> {
    match v {
        NumV::Int(i) => Some(NumV::Int(i)),
        NumV::Rat(x) => Some(NumV::Int(f(x))),
        NumV::Flt(x) => Some(match fv(x) { FV::Fin(y) => NumV::Int(f(y)), _ => NumV::Flt(x) }),
        NumV::Cpx(_) => None,
    }
}

} // verus!
