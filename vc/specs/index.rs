// ===== SPEC (index): Python indexing / slicing semantics, taken from the statement of C10 =====
verus! {

// s[n]: element n for 0 <= n < len, element len+n for -len <= n < 0, otherwise undefined
pub open spec fn py_index(len: int, n: int) -> Option<int> {
    if 0 <= n < len { Some(n) } else if -len <= n < 0 { Some(len + n) } else { None }
}

// slice bound clamping exactly like Python's PySlice_AdjustIndices with step 1
pub open spec fn py_clamp(len: int, i: int) -> int {
    if i >= 0 { if i < len { i } else { len } } else if i + len < 0 { 0 } else { i + len }
}

pub open spec fn opt_isize(o: Option<isize>) -> Option<int> {
    match o { Some(v) => Some(v as int), None => None }
}

// s[lo:hi] selects positions clo .. max(chi, clo)
pub open spec fn py_slice(len: int, lo: Option<int>, hi: Option<int>) -> (int, int) {
    let clo = match lo { Some(l) => py_clamp(len, l), None => 0 };
    let chi = match hi { Some(h) => py_clamp(len, h), None => len };
    (clo, if chi >= clo { chi } else { clo })
}

} // verus!
