// ===== SPEC (index): Python indexing / slicing semantics, taken from the statement of C10 =====
verus! {

// s[n]: element n for 0 <= n < len, element len+n for -len <= n < 0, otherwise undefined
pub open spec fn py_index(len: int, n: int) -> Option<int> {
    if 0 <= n < len { Some(n) } else if -len <= n < 0 { Some(len + n) } else { None }
}

// slice bound clamping exactly like Python's PySlice_AdjustIndices with step 1
pub open spec fn py_clamp(len: int, i: int) -> int {
    if i >= 0 { if i < len { i } else { len } } else if i + len < 0 { 0 } else { i + len }
}

pub open spec fn opt_isize(o: Option<isize>) -> Option<int> {
    match o { Some(v) => Some(v as int), None => None }
}

// s[lo:hi] selects positions clo .. max(chi, clo)
pub open spec fn py_slice(len: int, lo: Option<int>, hi: Option<int>) -> (int, int) {
    let clo = match lo { Some(l) => py_clamp(len, l), None => 0 };
    let chi = match hi { Some(h) => py_clamp(len, h), None => len };
    (clo, if chi >= clo { chi } else { clo })
}


// the integer an interpreter value denotes when used as an index (None for non-integers and non-numbers)
pub open spec fn obj_int(o: Obj) -> Option<int> { match o { Obj::Num(NNum::Int(n)) => Some(n@), _ => None } }
pub open spec fn obj_bound_ok(x: Option<&Obj>) -> bool {
    x is None || (obj_int(*x->Some_0) is Some && isize::MIN <= obj_int(*x->Some_0)->Some_0 <= isize::MAX)
}
pub open spec fn obj_bound(x: Option<&Obj>) -> Option<int> { match x { None => None, Some(o) => obj_int(*o) } }
pub open spec fn opt_obj_bound_ok(x: Option<Obj>) -> bool {
    x is None || (obj_int(x->Some_0) is Some && isize::MIN <= obj_int(x->Some_0)->Some_0 <= isize::MAX)
}
pub open spec fn opt_obj_bound(x: Option<Obj>) -> Option<int> { match x { None => None, Some(o) => obj_int(o) } }
// interpreter invariant (not verified here): struct ids are unique, so a field accessor of the struct with the same id as an
// instance indexes inside that instance's field vector
pub open spec fn field_access_wf(x: Obj, i: Obj) -> bool {
    (x is Instance && i is Func && i->Func_0 is StructField && x->Instance_0.id == i->Func_0->StructField_0.id)
        ==> i->Func_0->StructField_1 < x->Instance_1@.len()
}
// Rust never allocates more than isize::MAX bytes, so every Vec of non-zero-sized elements has at most isize::MAX elements
pub open spec fn seq_len_fits_isize(s: Seq) -> bool {
    match s {
        Seq::List(x) => x@.len() <= isize::MAX, Seq::Vector(x) => x@.len() <= isize::MAX, Seq::Bytes(x) => x@.len() <= isize::MAX,
        _ => true,
    }
}
// core.rs::to_key is verified in the `keys` unit; eval.rs::index only needs that it returns a key or an error
#[verifier::external_body]
pub fn to_key(obj: Obj) -> (r: NRes<ObjKey>) { unimplemented!() }
} // verus!
