// module
// ===== PROVED helper lemmas about floor / truncation on reals (Z3 does not find these unaided) =====
verus! {
// a real is its own truncation exactly when it is its own floor (i.e. it is an integer)
pub broadcast proof fn lemma_trunc_floor_int(v: real)
    ensures (v == ir(#[trigger] real_trunc(v))) == (v == ir(v.floor())),
            v == ir(v.floor()) ==> real_trunc(v) == v.floor(),
{
    if v < 0real {
        let n = (-v).floor();
        assert(ir(-n) == -ir(n));
        if v == ir(-n) { assert(v.floor() == -n); }
        if v == ir(v.floor()) { assert(-v == ir(-(v.floor()))); assert((-v).floor() == -(v.floor())); }
    }
}
// reducing one summand first does not change a sum modulo n (Cycle indexing)
pub broadcast proof fn lemma_mod_add_reduced(i: int, k: int, n: int)
    requires n > 0, 0 <= k < n
    ensures #[trigger] ((i % n + k) % n) == (i + k) % n
{
    vstd::arithmetic::div_mod::lemma_add_mod_noop(i, k, n);
    vstd::arithmetic::div_mod::lemma_small_mod(k as nat, n as nat);
}
// sequence concatenation is associative (for the hasher's word log)
pub broadcast proof fn lemma_hwords_assoc(a: VSeq<HWord>, b: VSeq<HWord>, c: VSeq<HWord>)
    ensures #[trigger] ((a + b) + c) == a + (b + c)
{
    assert(((a + b) + c) =~= a + (b + c));
}
} // verus!
