// ===== SPEC (istype): `v is T` vs `type(v)` (C12: "in particular v is type(v) and v is anything for every v") =====
verus! {
pub open spec fn type_of_spec(obj: Obj) -> ObjType {
    match obj {
        Obj::Null => ObjType::Null,
        Obj::Num(NNum::Int(_)) => ObjType::Int,
        Obj::Num(NNum::Rational(_)) => ObjType::Rational,
        Obj::Num(NNum::Float(_)) => ObjType::Float,
        Obj::Num(NNum::Complex(_)) => ObjType::Complex,
        Obj::Seq(Seq::List(_)) => ObjType::List,
        Obj::Seq(Seq::String(_)) => ObjType::String,
        Obj::Seq(Seq::Dict(..)) => ObjType::Dict,
        Obj::Seq(Seq::Vector(_)) => ObjType::Vector,
        Obj::Seq(Seq::Bytes(..)) => ObjType::Bytes,
        Obj::Seq(Seq::Stream(_)) => ObjType::Stream,
        Obj::Func(Func::Type(_), _) => ObjType::Type,
        Obj::Func(..) => ObjType::Func,
        Obj::Instance(..) => ObjType::StructInstance,
    }
}
// the builtin type names without payload
pub open spec fn builtin_simple(t: ObjType) -> bool { !(t is Struct) && !(t is Satisfying) }
// T accepts a value whose type(v) is U: same type, or T is `anything`, or T is `number` and U a numeric level,
// or T is `func` and U is `type` (types are callable function values)
pub open spec fn type_accepts(t: ObjType, u: ObjType) -> bool {
    t == u || t is Any || (t is Number && (u is Int || u is Rational || u is Float || u is Complex))
      || (t is Func && u is Type)
}
// ---- struct construction (call_type): the arguments, then the defaults of the fields that were not given ----
pub open spec fn struct_fill_ok(fields: VSeq<(String, Option<Obj>)>, n: int) -> bool {
    forall|i: int| n <= i < fields.len() ==> (#[trigger] fields[i]).1 is Some
}
// stubs of what call_type calls outside the struct arm (not verified here)
#[verifier::external_body]
pub fn call_type1(ty: &ObjType, arg: Obj) -> (r: NRes<Obj>) { unimplemented!() }
#[verifier::external_body]
pub fn expect_one(args: Vec<Obj>, msg: &str) -> (r: NRes<Obj>) { unimplemented!() }
// ---- declaration (insert_declare): the environment is opaque; inserting is an uninterpreted function of (name, type, value) ----
#[verifier::external_body] #[verifier::accept_recursive_types] pub struct EnvRefMut { _p: u8 }   // RefMut<Env>
pub uninterp spec fn env_borrowable(env: REnv) -> bool;
pub uninterp spec fn env_insert_spec(name: VSeq<char>, ty: ObjType, rhs: Obj) -> NRes<()>;
#[verifier::external_body]
pub fn try_borrow_mut_nres(r: &REnv, msg1: &str, msg2: &str) -> (res: NRes<EnvRefMut>) ensures res is Ok <==> env_borrowable(*r) { unimplemented!() }
impl EnvRefMut {
    #[verifier::external_body]
    pub fn insert(&mut self, s: String, ty: ObjType, rhs: Obj) -> (r: NRes<()>) ensures r == env_insert_spec(s@, ty, rhs) { unimplemented!() }
}
impl ObjType { #[verifier::external_body] pub fn name(&self) -> (r: String) { unimplemented!() } }
impl Clone for Struct { #[verifier::external_body] fn clone(&self) -> (r: Struct) ensures r == *self { unimplemented!() } }
pub assume_specification<T, A: std::alloc::Allocator>[ Vec::<T, A>::reserve_exact ](v: &mut Vec<T, A>, additional: usize) ensures final(v)@ == old(v)@;
} // verus!
