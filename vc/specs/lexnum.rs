// ===== SPEC (lexnum): the lexer's integer-literal kernels against positional notation (C15) =====
verus! {
// The lexer state as the kernels see it: the characters still to be read and the tokens emitted so far. `peek` / `next` / `emit`
// (thin wrappers around std's Peekable<Chars> and Vec::push in lex.rs) are assumed with these contracts.
#[verifier::external_body] pub struct Lexer { _p: u8 }
impl Lexer {
    pub uninterp spec fn rest(&self) -> VSeq<char>;
    pub uninterp spec fn emitted(&self) -> VSeq<Token>;
    #[verifier::external_body]
    pub fn peek(&mut self) -> (r: Option<&char>)
        ensures final(self).rest() == old(self).rest(), final(self).emitted() == old(self).emitted(),
            match r { Some(c) => old(self).rest().len() > 0 && *c == old(self).rest()[0], None => old(self).rest().len() == 0 }
    { unimplemented!() }
    #[verifier::external_body]
    pub fn next(&mut self) -> (r: Option<char>)
        ensures final(self).emitted() == old(self).emitted(),
            match r { Some(c) => old(self).rest().len() > 0 && c == old(self).rest()[0] && final(self).rest() == old(self).rest().skip(1),
                      None => old(self).rest().len() == 0 && final(self).rest() == old(self).rest() }
    { unimplemented!() }
    #[verifier::external_body]
    pub fn emit(&mut self, token: Token)
        ensures final(self).rest() == old(self).rest(), final(self).emitted() == old(self).emitted().push(token)
    { unimplemented!() }
}
// the longest prefix of s made of digits below the base
pub open spec fn digit_run(s: VSeq<char>, b: int) -> nat decreases s.len() {
    if s.len() > 0 && is_digit(s[0], b) { 1 + digit_run(s.skip(1), b) } else { 0 }
}
pub proof fn lemma_digit_run_step(s: VSeq<char>, b: int, k: int)
    requires 0 <= k <= digit_run(s, b),
    ensures k <= s.len(), all_digits(s.take(k), b), digit_run(s, b) == k + digit_run(s.skip(k), b),
    decreases k
{
    if k > 0 {
        lemma_digit_run_step(s.skip(1), b, k - 1);
        assert(s.skip(1).skip(k - 1) =~= s.skip(k));
        assert forall|i: int| 0 <= i < k implies is_digit(#[trigger] s.take(k)[i], b) by {
            if i > 0 { assert(s.take(k)[i] == s.skip(1).take(k - 1)[i - 1]); }
        }
    } else {
        assert(s.skip(0) =~= s);
    }
}
// ---- 64r literals: A-Z a-z 0-9 then + or - (62) and / or _ (63), most significant digit first ----
pub open spec fn b64_val(c: char) -> Option<int> {
    let u = c as u32 as int;
    if 65 <= u <= 90 { Some(u - 65) } else if 97 <= u <= 122 { Some(u - 97 + 26) } else if 48 <= u <= 57 { Some(u - 48 + 52) }
    else if c == '+' || c == '-' { Some(62) } else if c == '/' || c == '_' { Some(63) } else { None }
}
pub open spec fn b64_run(s: VSeq<char>) -> nat decreases s.len() {
    if s.len() > 0 && b64_val(s[0]) is Some { 1 + b64_run(s.skip(1)) } else { 0 }
}
pub open spec fn b64_value(s: VSeq<char>) -> int decreases s.len() {
    if s.len() == 0 { 0 } else { b64_value(s.drop_last()) * 64 + b64_val(s.last()).unwrap_or(0) }
}
pub proof fn lemma_b64_run_step(s: VSeq<char>, k: int)
    requires 0 <= k <= b64_run(s),
    ensures k <= s.len(), b64_run(s) == k + b64_run(s.skip(k)),
    decreases k
{
    if k > 0 {
        lemma_b64_run_step(s.skip(1), k - 1);
        assert(s.skip(1).skip(k - 1) =~= s.skip(k));
    } else {
        assert(s.skip(0) =~= s);
    }
}
} // verus!
