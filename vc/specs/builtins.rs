// ===== SPEC (builtins): nothing beyond the nnum tower =====
verus! {
} // verus!
