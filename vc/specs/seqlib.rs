// ===== SPEC (seqlib): the one-line definitions of the sequence helpers, taken from the statement of C13 =====
verus! {

// a fallible iterator's items: everything it will yield
pub open spec fn all_ok<T>(s: VSeq<NRes<T>>) -> bool { forall|i: int| 0 <= i < s.len() ==> (#[trigger] s[i]) is Ok }
pub open spec fn oks<T>(s: VSeq<NRes<T>>) -> VSeq<T> { s.map_values(|x: NRes<T>| x->Ok_0) }
// iterators handed to these helpers are finite and lawful (vstd's prophetic iterator model)
pub open spec fn finite_iter<I: Iterator>(it: I) -> bool { it.obeys_prophetic_iter_laws() && it.decrease() is Some }

// b is a copy of a made by Clone (element types here are Obj, NNum, char, u8, whose clones are equal values)
pub open spec fn seq_cloned<T: Clone>(a: VSeq<T>, b: VSeq<T>) -> bool {
    a.len() == b.len() && forall|i: int| 0 <= i < a.len() ==> cloned::<T>(#[trigger] a[i], b[i])
}

} // verus!
verus! {
// group / group': consecutive chunks of n items, the last one possibly shorter
pub open spec fn chunks_ok<T>(vs: VSeq<T>, n: int, out: VSeq<Vec<T>>) -> bool {
    vs.len() <= out.len() * n < vs.len() + n
        && forall|i: int| 0 <= i < out.len() ==> (#[trigger] out[i])@ == vs.subrange(i * n, if i * n + n <= vs.len() { i * n + n } else { vs.len() as int })
}
pub proof fn lemma_mod_of_multiple_plus(q: int, g: int, n: int)
    requires n > 0, 0 <= g < n, q >= 0,
    ensures (q * n + g) % n == g,
{
    vstd::arithmetic::div_mod::lemma_fundamental_div_mod_converse(q * n + g, n, q, g);
}
// ---- helpers that call back into user code ----
// the interpreter value a callback sees for an element: a clone of it, converted with Into<Obj>
pub open spec fn shown_as<T: Clone + Into<Obj>>(x: T, o: Obj) -> bool {
    exists|c: T| #![trigger call_ensures(<T as Into<Obj>>::into, (c,), o)] cloned::<T>(x, c) && call_ensures(<T as Into<Obj>>::into, (c,), o)
}
// testing x with predicate f gives res: f's answer on what x is shown as, reduced to its truthiness (or f's error)
pub open spec fn test_outcome<T: Clone + Into<Obj>>(f: Func, x: T, res: NRes<bool>) -> bool {
    exists|o: Obj| shown_as(x, o) && match #[trigger] run_spec(f, seq![o]) { Ok(v) => res == Ok::<bool, NErr>(truthy_spec(v)), Err(e) => res == Err::<bool, NErr>(e) }
}
pub open spec fn all_pass<T: Clone + Into<Obj>>(f: Func, s: VSeq<T>, n: int) -> bool {
    0 <= n <= s.len() && forall|i: int| 0 <= i < n ==> test_outcome(f, #[trigger] s[i], Ok::<bool, NErr>(true))
}
// take_while: the longest prefix whose elements all pass; the element after it (if any) was tested and did not pass
pub open spec fn take_while_ok<T: Clone + Into<Obj>>(f: Func, s: VSeq<T>, out: VSeq<T>, n: int) -> bool {
    all_pass(f, s, n) && out == s.take(n) && (n < s.len() ==> test_outcome(f, s[n], Ok::<bool, NErr>(false)))
}
pub open spec fn fails_at<T: Clone + Into<Obj>>(f: Func, s: VSeq<T>, n: int, e: NErr) -> bool {
    all_pass(f, s, n) && n < s.len() && test_outcome(f, s[n], Err::<bool, NErr>(e))
}
// filter (neg = false) / reject (neg = true): out is s without the elements whose test equals neg, order kept
pub open spec fn filter_rel<T: Clone + Into<Obj>>(f: Func, neg: bool, s: VSeq<T>, out: VSeq<T>) -> bool
    decreases s.len(),
{
    if s.len() == 0 { out.len() == 0 } else {
        let x = s.last();
        (test_outcome(f, x, Ok::<bool, NErr>(!neg)) && out.len() > 0 && out.last() == x && filter_rel(f, neg, s.drop_last(), out.drop_last()))
            || (test_outcome(f, x, Ok::<bool, NErr>(neg)) && filter_rel(f, neg, s.drop_last(), out))
    }
}
pub open spec fn all_tested<T: Clone + Into<Obj>>(f: Func, s: VSeq<T>, n: int) -> bool {
    0 <= n <= s.len() && forall|i: int| 0 <= i < n ==> (test_outcome(f, #[trigger] s[i], Ok::<bool, NErr>(true)) || test_outcome(f, s[i], Ok::<bool, NErr>(false)))
}
pub open spec fn test_fails_at<T: Clone + Into<Obj>>(f: Func, s: VSeq<T>, n: int, e: NErr) -> bool {
    all_tested(f, s, n) && n < s.len() && test_outcome(f, s[n], Err::<bool, NErr>(e))
}
} // verus!
verus! {
// TRUSTED: `window.iter().cloned().collect()` on a VecDeque (vstd specifies neither Iterator::cloned nor collect from it): the elements, cloned, in order
#[verifier::external_body]
pub fn vecdeque_cloned<T: Clone>(w: &std::collections::VecDeque<T>) -> (r: Vec<T>)
    ensures seq_cloned(w@, r@)
{ w.iter().cloned().collect() }
} // verus!
