// module
// ===== SPEC (range): `a til b by s` as the sequence a, a+s, a+2s, ... while on the near side of b =====
verus! {

pub open spec fn opt_nint(o: Option<NInt>) -> Option<int> { match o { Some(n) => Some(n@), None => None } }

// no element left: a non-negative step stops at start >= end, a negative step at start <= end; no end, never empty
pub open spec fn range_empty(start: int, end: Option<int>, step: int) -> bool {
    match end { None => false, Some(e) => if step < 0 { start <= e } else { start >= e } }
}
// iteration terminates: non-zero step, or zero step on an already-empty range
pub open spec fn range_finite(start: int, end: int, step: int) -> bool { step != 0 || start >= end }

// the number of elements iteration yields, defined BY the iteration (each next() yields start and adds step)
pub open spec fn range_count(start: int, end: int, step: int) -> nat
    recommends range_finite(start, end, step)
    decreases (if step > 0 { if end > start { end - start } else { 0 } } else { if start > end { start - end } else { 0 } })
{
    if step > 0 { if start >= end { 0 } else { 1 + range_count(start + step, end, step) } }
    else if step < 0 { if start <= end { 0 } else { 1 + range_count(start + step, end, step) } }
    else { 0 }
}

// closed form used by Range::len: ceil(distance / |step|), 0 if the distance is not positive
pub open spec fn cf_pos(n: int, d: int) -> int { if n + d - 1 <= 0 { 0 } else { (n + d - 1) / d } }
pub open spec fn range_closed_form(start: int, end: int, step: int) -> int {
    if step > 0 { cf_pos(end - start, step) } else if step < 0 { cf_pos(start - end, -step) } else { 0 }
}

// PROVED: the closed form equals the number of elements the iteration yields
pub proof fn lemma_range_count_pos(start: int, end: int, step: int)
    requires step > 0
    ensures range_count(start, end, step) as int == cf_pos(end - start, step)
    decreases (if end > start { end - start } else { 0 })
{
    use vstd::arithmetic::div_mod::{lemma_div_plus_one, lemma_basic_div};
    if start < end {
        lemma_range_count_pos(start + step, end, step);
        let n = end - start;
        lemma_div_plus_one(n - 1, step);
        assert((n - 1 + step) / step == (n - 1) / step + 1);
        if n - step <= 0 {
            lemma_basic_div(n - 1, step);
            assert((n - 1) / step == 0);
        } else {
            assert(((n - step) + step - 1) == n - 1);
        }
    } else {
        if end - start + step - 1 > 0 { lemma_basic_div(end - start + step - 1, step); }
    }
}
pub proof fn lemma_range_count_neg(start: int, end: int, step: int)
    requires step < 0
    ensures range_count(start, end, step) as int == cf_pos(start - end, -step)
    decreases (if start > end { start - end } else { 0 })
{
    use vstd::arithmetic::div_mod::{lemma_div_plus_one, lemma_basic_div};
    let d = -step;
    if start > end {
        lemma_range_count_neg(start + step, end, step);
        let n = start - end;
        lemma_div_plus_one(n - 1, d);
        assert((n - 1 + d) / d == (n - 1) / d + 1);
        if n - d <= 0 {
            lemma_basic_div(n - 1, d);
            assert((n - 1) / d == 0);
        } else {
            assert(((n - d) + d - 1) == n - 1);
        }
    } else {
        if start - end + d - 1 > 0 { lemma_basic_div(start - end + d - 1, d); }
    }
}
pub broadcast proof fn lemma_range_count_closed_form(start: int, end: int, step: int)
    requires step != 0
    ensures #[trigger] range_count(start, end, step) as int == range_closed_form(start, end, step)
{
    if step > 0 { lemma_range_count_pos(start, end, step); } else { lemma_range_count_neg(start, end, step); }
}
} // verus!
verus! {
// repeat(x)[lo:hi]: a bound counted from the (infinite) end is moved one further so that "no upper bound" can be written -1
pub open spec fn rep_bound(x: Option<isize>, dflt: int) -> int { match x { Some(v) => if v < 0 { v - 1 } else { v as int }, None => dflt } }
// stands for the unsizing coercion `Rc::new(s) as Rc<dyn Stream>`
#[verifier::external_body]
pub fn stream_rc<S>(s: S) -> (r: Rc<StreamBox>) { unimplemented!() }
pub open spec fn rep_ok(lo: Option<isize>, hi: Option<isize>) -> bool { lo != Some(isize::MIN) && hi != Some(isize::MIN) }
} // verus!
