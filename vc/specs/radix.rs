// ===== SPEC (radix): positional notation, taken from the statement of C16 =====
verus! {

// the digit characters of bases 2..36: 0-9 then a-z (what `str_radix` writes); reading also accepts A-Z
pub open spec fn digit_char(d: int) -> char { if d < 10 { ((48 + d) as u8) as char } else { ((87 + d) as u8) as char } }
pub open spec fn digit_val(c: char) -> Option<int> {
    let u = c as u32 as int;
    if 48 <= u <= 57 { Some(u - 48) } else if 97 <= u <= 122 { Some(u - 87) } else if 65 <= u <= 90 { Some(u - 55) } else { None }
}
pub open spec fn is_digit(c: char, b: int) -> bool { digit_val(c) is Some && digit_val(c)->Some_0 < b }
pub open spec fn all_digits(s: VSeq<char>, b: int) -> bool { forall|i: int| 0 <= i < s.len() ==> is_digit(#[trigger] s[i], b) }

// positional notation: the value of a digit string, most significant digit first
pub open spec fn radix_value(s: VSeq<char>, b: int) -> int
    decreases s.len(),
{
    if s.len() == 0 { 0 } else { radix_value(s.drop_last(), b) * b + digit_val(s.last()).unwrap_or(0) }
}

pub open spec fn bytes_as_chars(s: VSeq<u8>) -> VSeq<char> { s.map_values(|b: u8| b as char) }

// s is THE base-b numeral of n: optional '-' for negatives, then digits below b whose positional value is |n|, no leading zero
// except for the single digit "0"
pub open spec fn is_numeral_body(s: VSeq<char>, m: int, b: int) -> bool {
    s.len() >= 1 && all_digits(s, b) && (s[0] != '0' || s.len() == 1) && radix_value(s, b) == m
        && (forall|i: int| 0 <= i < s.len() ==> #[trigger] s[i] == digit_char(digit_val(s[i])->Some_0))
}
pub open spec fn is_numeral(s: VSeq<char>, n: int, b: int) -> bool {
    if n < 0 { s.len() >= 1 && s[0] == '-' && is_numeral_body(s.subrange(1, s.len() as int), -n, b) } else { is_numeral_body(s, n, b) }
}

// what the loop of str_radix produces: digits least significant first
pub open spec fn digits_lsf(n: int, b: int) -> VSeq<char>
    decreases (if n > 0 { n } else { 0 }) via digits_lsf_decreases
{
    if n <= 0 || b < 2 { VSeq::<char>::empty() } else { seq![digit_char(n % b)].add(digits_lsf(n / b, b)) }
}
#[via_fn]
proof fn digits_lsf_decreases(n: int, b: int) {
    if n > 0 && b >= 2 { lemma_div_smaller(n, b); }
}

pub proof fn lemma_div_smaller(n: int, b: int)
    requires n > 0, b >= 2,
    ensures 0 <= n / b < n, 0 <= n % b < b, n == (n / b) * b + n % b,
{
    vstd::arithmetic::div_mod::lemma_fundamental_div_mod(n, b);
    vstd::arithmetic::div_mod::lemma_mod_bound(n, b);
    vstd::arithmetic::div_mod::lemma_div_pos_is_pos(n, b);
    assert((n / b) * b == b * (n / b)) by (nonlinear_arith);
    if n / b >= n {
        assert((n / b) * b >= n * 2) by (nonlinear_arith) requires n / b >= n, b >= 2, n > 0;
    }
}

pub proof fn lemma_digit_char_val(d: int)
    requires 0 <= d < 36,
    ensures digit_val(digit_char(d)) == Some(d), digit_char(d) != '-', d != 0 ==> digit_char(d) != '0', d == 0 ==> digit_char(d) == '0',
{
}

pub proof fn lemma_reverse_cons(d: char, t: VSeq<char>)
    ensures seq![d].add(t).reverse() =~= t.reverse().push(d),
{
}

// the reversed loop output is the numeral of m
pub proof fn lemma_lsf_is_positional(m: int, b: int)
    requires m > 0, 2 <= b <= 36,
    ensures is_numeral_body(digits_lsf(m, b).reverse(), m, b), digits_lsf(m, b).len() >= 1,
    decreases m,
{
    lemma_div_smaller(m, b);
    let d = digit_char(m % b);
    lemma_digit_char_val(m % b);
    let t = digits_lsf(m / b, b);
    lemma_reverse_cons(d, t);
    let s = digits_lsf(m, b).reverse();
    assert(s =~= t.reverse().push(d));
    assert(s.drop_last() =~= t.reverse());
    assert(s.last() == d);
    if m / b > 0 {
        lemma_lsf_is_positional(m / b, b);
        assert(s[0] == t.reverse()[0]);
        if t.len() == 1 {
            let tr = t.reverse();
            assert(tr.drop_last().len() == 0);
            assert(radix_value(tr.drop_last(), b) == 0);
            assert(radix_value(tr, b) == radix_value(tr.drop_last(), b) * b + digit_val(tr.last()).unwrap_or(0));
            assert(digit_val(tr[0]).unwrap_or(0) == m / b);
        }
        assert forall|i: int| 0 <= i < s.len() implies is_digit(#[trigger] s[i], b) && s[i] == digit_char(digit_val(s[i])->Some_0) by {
            if i < t.len() { assert(s[i] == t.reverse()[i]); }
        }
    } else {
        assert(t.len() == 0);
        assert(s.len() == 1);
        assert((m / b) * b == 0) by (nonlinear_arith) requires m / b == 0;
        assert(m % b == m);
        assert(radix_value(s.drop_last(), b) == 0);
    }
}

// reading back what was written gives the number (C16: int_radix(str_radix(n, b), b) == n for n >= 0): the numeral's digits are
// all below the base, so the reader accepts them, and its positional value is n by definition
pub proof fn lemma_radix_round_trip(s: VSeq<char>, n: int, b: int)
    requires n >= 0, 2 <= b <= 36, is_numeral(s, n, b),
    ensures all_digits(s, b), radix_value(s, b) == n,
{
}

} // verus!
verus! {
// ---- std items (assumed: std's documented behaviour) ----
// char::from_digit panics for radix > 36; Some(lower-case digit) exactly for num < radix
pub assume_specification[ char::from_digit ](num: u32, radix: u32) -> (r: Option<char>)
    requires radix <= 36,
    ensures r == (if num < radix { Some(digit_char(num as int)) } else { None::<char> });
// char::to_digit panics for radix > 36; letters are accepted in either case
pub assume_specification[ char::to_digit ](c: char, radix: u32) -> (r: Option<u32>)
    requires radix <= 36,
    ensures r == (if is_digit(c, radix as int) { Some(digit_val(c)->Some_0 as u32) } else { None::<u32> });
// stands for `v.into_iter().collect::<String>()` (vstd has no FromIterator<char> specification for String)
#[verifier::external_body]
pub fn string_of_chars(v: Vec<char>) -> (s: String) ensures s@ == v@ { v.into_iter().collect::<String>() }
} // verus!
