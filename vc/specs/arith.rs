// module
// ===== PROVED sanity lemmas: the reference functions used in contracts mean what C06/C07 say =====
verus! {
use vstd::arithmetic::div_mod::{lemma_fundamental_div_mod, lemma_mod_bound};

// truncating division: a == q*b + r, |r| < |b|, r has the sign of a (or is 0)
pub proof fn lemma_trunc_char(a: int, b: int)
    requires b != 0
    ensures a == trunc_div(a, b) * b + trunc_rem(a, b),
            int_abs(trunc_rem(a, b)) < int_abs(b),
            (a >= 0 ==> trunc_rem(a, b) >= 0), (a <= 0 ==> trunc_rem(a, b) <= 0),
{
    if a > 0 {
        lemma_fundamental_div_mod(a, b);
        if b > 0 { lemma_mod_bound(a, b); } else { assert(0 <= a % b < -b); }
        assert(b * (a / b) == (a / b) * b) by(nonlinear_arith);
    } else if a < 0 {
        lemma_fundamental_div_mod(-a, b);
        assert(0 <= (-a) % b < int_abs(b));
        assert((-((-a) / b)) * b == -(b * ((-a) / b))) by(nonlinear_arith);
    }
}

// floor division: (a // b) * b + (a %% b) == a, and a %% b has the divisor's sign
pub proof fn lemma_floor_char(a: int, b: int)
    requires b != 0
    ensures a == floor_div(a, b) * b + floor_mod(a, b),
            b > 0 ==> 0 <= floor_mod(a, b) < b,
            b < 0 ==> b < floor_mod(a, b) <= 0,
{
    if b > 0 {
        lemma_fundamental_div_mod(a, b);
        lemma_mod_bound(a, b);
        assert(b * (a / b) == (a / b) * b) by(nonlinear_arith);
    } else {
        lemma_fundamental_div_mod(-a, -b);
        lemma_mod_bound(-a, -b);
        assert((-b) * ((-a) / (-b)) == -(((-a) / (-b)) * b)) by(nonlinear_arith);
        assert(b * ((-a) / (-b)) == ((-a) / (-b)) * b) by(nonlinear_arith);
    }
}

// the truncated quotient of two machine words fits a machine word except for MIN / -1 (what i64::checked_div relies on)
pub broadcast proof fn lemma_trunc_div_i64_range(a: i64, b: i64)
    requires b != 0, !(a == i64::MIN && b == -1)
    ensures i64::MIN <= #[trigger] trunc_div(a as int, b as int) <= i64::MAX
{
    let x = a as int; let y = b as int;
    if x > 0 {
        if y > 0 { assert(0 <= x / y <= x) by(nonlinear_arith) requires x > 0, y > 0; }
        else { assert(-x <= x / y <= 0) by(nonlinear_arith) requires x > 0, y < 0; }
    } else if x < 0 {
        if y > 0 { assert(0 <= (-x) / y <= -x) by(nonlinear_arith) requires x < 0, y > 0; }
        else if y == -1 { assert((-x) / (-1int) == x) by(nonlinear_arith) requires x < 0; }
        else { assert(x < (-x) / y <= 0) by(nonlinear_arith) requires x < 0, y < -1; }
    }
}

pub broadcast proof fn lemma_int_pow_zero_base(e: nat)
    requires e >= 1
    ensures #[trigger] int_pow(0, e) == 0
{
    assert(int_pow(0, e) == 0 * int_pow(0, (e - 1) as nat));
}
// a power of a non-zero integer is non-zero (so the reciprocal taken by `0 ^ negative` is the only failing case)
pub broadcast proof fn lemma_int_pow_nonzero(a: int, e: nat)
    requires a != 0
    ensures #[trigger] int_pow(a, e) != 0
    decreases e
{
    if e > 0 {
        lemma_int_pow_nonzero(a, (e - 1) as nat);
        assert(a * int_pow(a, (e - 1) as nat) != 0) by(nonlinear_arith) requires a != 0, int_pow(a, (e - 1) as nat) != 0;
    }
}
} // verus!
