// ===== SPEC (obj_from_bigint): vstd's From specification hook for `impl From<BigInt> for Obj` (verified in the radix and accessors units) =====
verus! {
impl vstd::std_specs::convert::FromSpecImpl<BigInt> for Obj {
    open spec fn obeys_from_spec() -> bool { false }
    open spec fn from_spec(v: BigInt) -> Obj { arbitrary() }
}
} // verus!
