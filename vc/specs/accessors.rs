// ===== SPEC (accessors): what eval.rs::slice_seq guarantees (the clauses of its contract in the `index` unit, as one predicate) =====
verus! {
pub open spec fn slice_seq_post(xr: Seq, lo: Option<Obj>, hi: Option<Obj>, r: NRes<Obj>) -> bool {
    let lob = opt_obj_bound(lo);
    let hib = opt_obj_bound(hi);
    &&& ((!(xr is Dict) && !(xr is Stream) && opt_obj_bound_ok(lo) && opt_obj_bound_ok(hi)) ==> r is Ok)
    &&& ((xr is List && r is Ok) ==> (r->Ok_0 is Seq && r->Ok_0->Seq_0 is List
            && r->Ok_0->Seq_0->List_0@ =~= xr->List_0@.subrange(py_slice(xr->List_0@.len() as int, lob, hib).0, py_slice(xr->List_0@.len() as int, lob, hib).1)))
    &&& ((xr is Bytes && r is Ok) ==> (r->Ok_0 is Seq && r->Ok_0->Seq_0 is Bytes
            && r->Ok_0->Seq_0->Bytes_0@ =~= xr->Bytes_0@.subrange(py_slice(xr->Bytes_0@.len() as int, lob, hib).0, py_slice(xr->Bytes_0@.len() as int, lob, hib).1)))
    &&& ((xr is Vector && r is Ok) ==> (r->Ok_0 is Seq && r->Ok_0->Seq_0 is Vector
            && r->Ok_0->Seq_0->Vector_0@.len() == py_slice(xr->Vector_0@.len() as int, lob, hib).1 - py_slice(xr->Vector_0@.len() as int, lob, hib).0
            && forall|k: int| 0 <= k < r->Ok_0->Seq_0->Vector_0@.len() ==> (#[trigger] r->Ok_0->Seq_0->Vector_0@[k])@ == xr->Vector_0@[py_slice(xr->Vector_0@.len() as int, lob, hib).0 + k]@))
    &&& (xr is Dict ==> (r is Err && err_class(r->Err_0) == ErrClass::Type))
}
// TRUSTED (not verified here): the predicate forms of take / drop (lib.rs take_while / drop_while: kind dispatch around take_while_inner,
// which is under contract in the `seqlib` unit)
#[verifier::external_body]
pub fn take_while(s: Seq, f: Func, env: &REnv) -> (r: NRes<Obj>) { unimplemented!() }
#[verifier::external_body]
pub fn drop_while(s: Seq, f: Func, env: &REnv) -> (r: NRes<Obj>) { unimplemented!() }
impl NErr {
    // core.rs: NErr::throw(format!("unrecognized argument type: ..."))
    #[verifier::external_body]
    pub fn argument_error_1(x: &Obj) -> (r: NErr) ensures err_class(r) == ErrClass::Throw { unimplemented!() }
}
} // verus!
