// ===== SPEC (radix_from): vstd's From specification hooks for the two Obj conversions verified in the radix unit =====
verus! {
impl vstd::std_specs::convert::FromSpecImpl<String> for Obj {
    open spec fn obeys_from_spec() -> bool { false }
    open spec fn from_spec(v: String) -> Obj { arbitrary() }
}
impl vstd::std_specs::convert::FromSpecImpl<BigInt> for Obj {
    open spec fn obeys_from_spec() -> bool { false }
    open spec fn from_spec(v: BigInt) -> Obj { arbitrary() }
}
} // verus!
