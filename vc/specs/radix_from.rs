// ===== SPEC (radix_from): vstd's From specification hooks for the Obj-from-String conversion verified in the radix unit =====
verus! {
impl vstd::std_specs::convert::FromSpecImpl<String> for Obj {
    open spec fn obeys_from_spec() -> bool { false }
    open spec fn from_spec(v: String) -> Obj { arbitrary() }
}
} // verus!
