#!/usr/bin/env python3
"""Copy confirmed seeded changes from the sub-agents' output directory into /verif/seeded/<prop>-<n>/ with meta.json, and write
seeded/SUMMARY.md from a seeded_batch result file. usage: seeded_collect.py <agents-root> <results.json>"""
import json, os, re, shutil, sys
root, resf = sys.argv[1], sys.argv[2]
tag = sys.argv[3] if len(sys.argv) > 3 else ''
VERIF = os.path.dirname(os.path.dirname(os.path.abspath(__file__)))
res = {r['dir']: r for r in json.load(open(resf)) if 'dir' in r}
rows = []
for d, r in sorted(res.items()):
    prop, ch = d.split('/')[-2], d.split('/')[-1]
    sid = '%s-%s%s' % (prop, tag, ch.replace('change', ''))
    confirmed = bool(r.get('applies') and r.get('builds') and r.get('baseline_ok') and r.get('demo_unchanged_matches_expected') and r.get('demo_changed_differs'))
    out = os.path.join(VERIF, 'seeded', sid)
    os.makedirs(out, exist_ok=True)
    for f in os.listdir(d):
        if os.path.isfile(os.path.join(d, f)) and os.path.getsize(os.path.join(d, f)) < 200000:
            shutil.copy2(os.path.join(d, f), os.path.join(out, f))
    notes = open(os.path.join(d, 'notes.md')).read() if os.path.exists(os.path.join(d, 'notes.md')) else ''
    m = re.search(r'(?is)(needs?|condition|trigger|manifest)[^\n]*\n(.{0,600})', notes)
    checks = r.get('checks', {})
    own = checks.get(prop, {})
    by = 'missed'
    if own.get('rc') == 1:
        vl = [l for l in own.get('lines', []) if l.startswith('VIOLATION')]
        by = 'proof' if any('-bounded-' not in l for l in vl) else 'bounded'
    elif own.get('rc') == 2:
        by = 'undecided'
    meta = dict(id=sid, property=prop, source='fresh sub-agent given only the property text and a scratch worktree of /repo',
                breaks=prop, needs_to_manifest=(m.group(0)[:700] if m else 'see notes.md'),
                confirmed=confirmed,
                what_i_ran=['git apply patch.diff on a scratch copy of /repo', 'cargo build --offline', 'cargo nextest run --workspace --no-fail-fast --offline (%s)' % r.get('tests'),
                            'demo on the unchanged tree == expected: %s' % r.get('demo_unchanged_matches_expected'), 'demo with the change differs: %s' % r.get('demo_changed_differs'),
                            'python3 vc/check.py %s with VERIF_REPO=<copy>' % prop],
                checks={p: dict(exit=c['rc'], lines=c['lines'][:3]) for p, c in checks.items()}, detected_by=by)
    json.dump(meta, open(os.path.join(out, 'meta.json'), 'w'), indent=1)
    rows.append((sid, prop, confirmed, by, own.get('rc'), ([l for l in own.get('lines', []) if l.startswith('VIOLATION')] or own.get('lines') or [''])[0][:150], {p: c['rc'] for p, c in checks.items() if p != prop}))
with open(os.path.join(VERIF, 'seeded', 'SUMMARY%s.md' % ('-' + tag.strip('-') if tag else '')), 'w') as f:
    f.write('# Seeded changes and which check catches them\n\n')
    f.write('Each change was written by a fresh sub-agent that saw only the property text and a scratch worktree; each was confirmed here '
            '(applies, builds, 48-test baseline unchanged, demonstration passes without and fails with the change). '
            '`by`: proof = a named Verus/Kani obligation failed; bounded = only the bounded stand-in (grid on the real interpreter) '
            'raised the alarm; undecided = exit 2 (no alarm); missed = exit 0.\n\n')
    f.write('| id | property | confirmed | by | exit | first line | other checks |\n|---|---|---|---|---|---|---|\n')
    for r in rows:
        f.write('| %s | %s | %s | %s | %s | `%s` | %s |\n' % r)
    n = len(rows)
    f.write('\n%d changes: %d by proof, %d by the bounded stand-in, %d undecided, %d missed.\n' % (
        n, sum(1 for r in rows if r[3] == 'proof'), sum(1 for r in rows if r[3] == 'bounded'), sum(1 for r in rows if r[3] == 'undecided'), sum(1 for r in rows if r[3] == 'missed')))
print(open(os.path.join(VERIF, 'seeded', 'SUMMARY%s.md' % ('-' + tag.strip('-') if tag else ''))).read()[-300:])
