"""Rust-token-aware scanning used by the extractor.

Nothing here understands Rust semantics; it only knows enough lexical structure
(line/block comments incl. nesting, string / raw string / byte string / char
literals vs lifetimes) to make brace matching and keyword search reliable.

`mask(text)` returns a string of the same length in which the *contents* of
comments and literals are replaced by spaces, so that offsets agree with the
original text.
"""
import re


class ScanError(Exception):
    pass


def mask(text):
    out = list(text)
    n = len(text)
    i = 0

    def blank(a, b):
        for k in range(a, b):
            if out[k] != '\n':
                out[k] = ' '

    while i < n:
        c = text[i]
        if c == '/' and i + 1 < n and text[i + 1] == '/':
            j = text.find('\n', i)
            if j < 0:
                j = n
            blank(i, j)
            i = j
        elif c == '/' and i + 1 < n and text[i + 1] == '*':
            depth = 1
            j = i + 2
            while j < n and depth > 0:
                if text.startswith('/*', j):
                    depth += 1
                    j += 2
                elif text.startswith('*/', j):
                    depth -= 1
                    j += 2
                else:
                    j += 1
            blank(i, j)
            i = j
        elif c == '"':
            j = i + 1
            while j < n and text[j] != '"':
                if text[j] == '\\':
                    j += 1
                j += 1
            blank(i + 1, min(j, n))
            i = j + 1
        elif c == 'r' and (i == 0 or not (text[i - 1].isalnum() or text[i - 1] == '_')) and \
                re.match(r'r#*"', text[i:i + 40]):
            m = re.match(r'r(#*)"', text[i:i + 40])
            hashes = m.group(1)
            close = '"' + hashes
            j = text.find(close, i + len(m.group(0)))
            if j < 0:
                j = n
            blank(i + len(m.group(0)), j)
            i = j + len(close)
        elif c == 'b' and i + 1 < n and text[i + 1] in '"\'' and \
                (i == 0 or not (text[i - 1].isalnum() or text[i - 1] == '_')):
            i += 1  # handled as normal literal on next iteration
        elif c == "'":
            # char literal or lifetime
            m = re.match(r"'(\\x[0-9a-fA-F]{2}|\\u\{[0-9a-fA-F_]+\}|\\.|[^\\'])'", text[i:i + 16])
            if m:
                blank(i + 1, i + len(m.group(0)) - 1)
                i += len(m.group(0))
            else:
                i += 1  # lifetime
        else:
            i += 1
    return ''.join(out)


OPEN = '([{'
CLOSE = ')]}'


def match_close(masked, pos):
    """masked[pos] is an opening bracket; return index of its partner."""
    depth = 0
    o = masked[pos]
    c = CLOSE[OPEN.index(o)]
    for i in range(pos, len(masked)):
        ch = masked[i]
        if ch == o:
            depth += 1
        elif ch == c:
            depth -= 1
            if depth == 0:
                return i
    raise ScanError('unbalanced %s at offset %d' % (o, pos))


def depth_positions(masked, start, end):
    """yield (index, brace_depth_before_char) for region [start, end)"""
    d = 0
    for i in range(start, end):
        ch = masked[i]
        if ch == '}':
            d -= 1
        yield i, d
        if ch == '{':
            d += 1


_DEPTH_CACHE = {}


def _depths(masked):
    """prefix array: absolute brace depth before each char (cached per text object)"""
    key = id(masked)
    ent = _DEPTH_CACHE.get(key)
    if ent is not None and ent[0] is masked:
        return ent[1]
    import array
    arr = array.array('i', [0]) * (len(masked) + 1)
    d = 0
    for i, ch in enumerate(masked):
        arr[i] = d
        if ch == '{':
            d += 1
        elif ch == '}':
            d -= 1
    arr[len(masked)] = d
    if len(_DEPTH_CACHE) > 8:
        _DEPTH_CACHE.clear()
    _DEPTH_CACHE[key] = (masked, arr)
    return arr


def brace_depth_at(masked, start, pos):
    a = _depths(masked)
    return a[pos] - a[start]


def norm(s):
    s = re.sub(r'\s+', ' ', s.strip())
    s = re.sub(r'\s*([<>,&:()])\s*', r'\1', s)
    return s


def line_of(text, pos):
    return text.count('\n', 0, pos) + 1


def item_start(text, masked, kwpos, region_start):
    """Walk back from a keyword to include visibility/qualifiers on the same item and
    preceding attribute lines (`#[...]`). Returns the offset of the first char."""
    # go back to line start while only qualifiers precede on that line
    ls = text.rfind('\n', 0, kwpos) + 1
    prefix = masked[ls:kwpos]
    if re.fullmatch(r'\s*((pub(\([^)]*\))?|const|unsafe|async|default|extern)\s+)*', prefix):
        start = ls
    else:
        # keyword in the middle of a line: take qualifiers directly before it
        m = re.search(r'((pub(\([^)]*\))?|const|unsafe|async)\s+)*$', prefix)
        start = ls + m.start()
    # preceding attribute lines
    while True:
        pl_end = start - 1
        if pl_end <= region_start:
            break
        pl_start = text.rfind('\n', 0, pl_end) + 1
        if pl_start < region_start:
            break
        line = masked[pl_start:pl_end].strip()
        if line.startswith('#[') and line.endswith(']'):
            start = pl_start
        else:
            break
    return start


class Region:
    def __init__(self, text, masked, start, end, what):
        self.text, self.masked, self.start, self.end, self.what = text, masked, start, end, what

    @property
    def src(self):
        return self.text[self.start:self.end]


def _iter_kw(masked, kw, start, end):
    for m in re.finditer(r'\b%s\b' % kw, masked[start:end]):
        yield start + m.start()


def find_body_open(masked, pos, end):
    """first `{` at paren/bracket depth 0 after pos; stops at `;` (no body)."""
    d = 0
    for i in range(pos, end):
        ch = masked[i]
        if ch in '([':
            d += 1
        elif ch in ')]':
            d -= 1
        elif ch == '{' and d == 0:
            return i
        elif ch == ';' and d == 0:
            return -1
    return -1


def find_component(text, masked, region, comp):
    """comp: 'mod X' | 'fn X' | 'impl HEADER' | 'enum X' | 'struct X' | 'trait X' | 'type X'
    region: (start, end) inside which items at relative brace depth 0 are searched.
    Returns list of (item_start, body_open or -1, item_end) candidates."""
    rs, re_ = region
    mk = re.match(r'(impl|fn|mod|enum|struct|trait|type|const|static)\b', comp)
    if not mk:
        raise ScanError('bad locator component: ' + comp)
    kind = mk.group(1)
    rest = comp[mk.end():].strip()
    res = []
    base_depth = None
    for kw in _iter_kw(masked, kind, rs, re_):
        if brace_depth_at(masked, rs, kw) != 0:
            continue
        after = kw + len(kind)
        bo = find_body_open(masked, after, re_)
        if kind == 'impl':
            if bo < 0:
                continue
            header = norm(text[after:bo])
            # drop where clauses from comparison only if the locator has none
            if header != norm(rest):
                # allow locator without generic params prefix e.g. "impl<'a> NInt" vs "NInt"
                h2 = re.sub(r"^<[^>]*>", '', header)
                if h2 != norm(rest):
                    continue
        else:
            m = re.match(r'\s+([A-Za-z_][A-Za-z0-9_]*)', masked[after:after + 200])
            if not m or m.group(1) != rest:
                continue
        st = item_start(text, masked, kw, rs)
        if bo < 0:
            semi = masked.find(';', after, re_)
            if semi < 0:
                continue
            res.append((st, -1, semi + 1))
        else:
            # struct Foo(..); has no body either: find_body_open returned -1 there
            close = match_close(masked, bo)
            res.append((st, bo, close + 1))
    return res


def locate(text, masked, locator):
    """locator: components separated by ' / '. Returns dict with offsets:
       chain: list of (comp, start, body_open, end) from outermost to the item."""
    comps = [c.strip() for c in locator.split(' / ')]

    def rec(region, idx):
        cands = find_component(text, masked, region, comps[idx])
        for (st, bo, en) in cands:
            if idx == len(comps) - 1:
                return [(comps[idx], st, bo, en)]
            if bo < 0:
                continue
            sub = rec((bo + 1, en - 1), idx + 1)
            if sub:
                return [(comps[idx], st, bo, en)] + sub
        return None

    chain = rec((0, len(text)), 0)
    if not chain:
        raise ScanError('locator not found: %s' % locator)
    return chain


def find_loops(masked, body_open, body_close):
    """Offsets of `while` / `loop` / `for` keywords inside a fn body (all nesting levels,
    but not inside nested fn items or closures are NOT distinguished), in source order.
    Returns list of (kw_pos, kw, loop_body_open)."""
    out = []
    for m in re.finditer(r'\b(while|loop|for)\b', masked[body_open:body_close]):
        p = body_open + m.start()
        kw = m.group(1)
        if kw == 'for':
            # skip `for<'a>` HRTB and `impl X for Y`
            tail = masked[p + 3:p + 40]
            if tail.lstrip().startswith('<'):
                continue
        bo = find_loop_body_open(masked, p + len(kw), body_close)
        if bo < 0:
            continue
        out.append((p, kw, bo))
    return out


def find_loop_body_open(masked, pos, end):
    """the `{` that opens a loop body: first `{` at paren depth 0 that is not the start of a
    closure body / match / struct literal inside the condition. Conditions in this code base
    contain closures `|t| expr` without braces, so the simple rule is adequate; a `match` or
    block inside the condition would need parentheses in Rust anyway."""
    d = 0
    for i in range(pos, end):
        ch = masked[i]
        if ch in '([':
            d += 1
        elif ch in ')]':
            d -= 1
        elif ch == '{' and d == 0:
            return i
    return -1


def find_closures(masked, body_open, body_close):
    """closure literals in source order: (params_start, params_end_exclusive, body_start, body_end_exclusive, braced).
    A `|` starts a closure when the previous significant char is one of `( , = { ;` or the keyword `move`/`return`;
    (binary `|` and or-patterns have an operand/pattern before them)."""
    out = []
    i = body_open + 1
    while i < body_close:
        ch = masked[i]
        if ch == '|':
            j = i - 1
            while j > body_open and masked[j].isspace():
                j -= 1
            prev = masked[j]
            kw = re.search(r'(move|return)$', masked[max(body_open, j - 6):j + 1])
            if prev in '(,={;' or kw:
                if masked[i + 1] == '|':
                    pend = i + 2
                else:
                    pend = masked.find('|', i + 1)
                    if pend < 0:
                        break
                    pend += 1
                k = pend
                while masked[k].isspace():
                    k += 1
                if masked.startswith('->', k):
                    # `|x: T| -> R { .. }`: the declared return type belongs to the header (a closure with a return type always has a block body)
                    k2 = masked.find('{', k)
                    if k2 > 0:
                        pend = k2
                        k = k2
                if masked[k] == '{':
                    e = match_close(masked, k) + 1
                    out.append((i, pend, k, e, True))
                else:
                    d = 0
                    e = k
                    while e < body_close:
                        c = masked[e]
                        if c in '([{':
                            d += 1
                        elif c in ')]}':
                            if d == 0:
                                break
                            d -= 1
                        elif c in ',;' and d == 0:
                            break
                        e += 1
                    out.append((i, pend, k, e, False))
                i = pend
                continue
        i += 1
    return out
