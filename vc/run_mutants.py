#!/usr/bin/env python3
"""Sensitivity self-test: run every catalogued mutant (vc/mutants/*.json). A breaking mutant must make its property's check
exit 1; a benign one must leave it at 0. Writes vc/mutants/RESULTS.json. usage: run_mutants.py [pattern]"""
import concurrent.futures, glob, json, os, sys
HERE = os.path.dirname(os.path.abspath(__file__))
sys.path.insert(0, HERE)
import run_mutant
pat = sys.argv[1] if len(sys.argv) > 1 else '*'
files = sorted(glob.glob(os.path.join(HERE, 'mutants', pat + '.json')))
files = [f for f in files if not f.endswith('RESULTS.json')]
res = []
with concurrent.futures.ThreadPoolExecutor(max_workers=3) as ex:
    for r in ex.map(run_mutant.run, files):
        ok = None
        if 'results' in r:
            rcs = [v['rc'] for v in r['results'].values()]
            ok = (any(rc == 1 for rc in rcs)) if r['kind'] == 'breaking' else all(rc == 0 for rc in rcs)
        r['as_expected'] = ok
        res.append(r)
        print(r['name'], r.get('kind'), {k: v['rc'] for k, v in r.get('results', {}).items()}, 'OK' if ok else 'UNEXPECTED', r.get('error', ''), flush=True)
json.dump(res, open(os.path.join(HERE, 'mutants', 'RESULTS.json'), 'w'), indent=1)
print('breaking detected: %d/%d; benign quiet: %d/%d' % (
    sum(1 for r in res if r.get('kind') == 'breaking' and r['as_expected']), sum(1 for r in res if r.get('kind') == 'breaking'),
    sum(1 for r in res if r.get('kind') == 'benign' and r['as_expected']), sum(1 for r in res if r.get('kind') == 'benign')))
