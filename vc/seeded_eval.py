#!/usr/bin/env python3
"""Confirm a seeded change and run the checks against it.
usage: seeded_eval.py <dir with patch.diff [+ demo.noul + expected_output.txt]> <PROP> [more PROPs]
Everything happens in a scratch copy of /repo (never in /repo): apply the patch, build, run the existing tests,
run the demonstration on the changed and on the unchanged tree, then run the property checks with VERIF_REPO=<copy>."""
import json, os, re, shutil, subprocess, sys, tempfile

HERE = os.path.dirname(os.path.abspath(__file__))
VERIF = os.path.dirname(HERE)
REPO = '/repo'


def sh(cmd, **kw):
    return subprocess.run(cmd, capture_output=True, text=True, **kw)


def main():
    d = os.path.abspath(sys.argv[1])
    props = sys.argv[2:]
    tmp = tempfile.mkdtemp(prefix='noulith-seed.', dir='/var/tmp')
    out = dict(dir=d, props=props)
    try:
        subprocess.check_call(['rsync', '-a', '--exclude', '/target', '--exclude', '/.git', REPO + '/', tmp + '/'])
        r = sh(['git', 'apply', '--whitespace=nowarn', os.path.join(d, 'patch.diff')], cwd=tmp)
        if r.returncode != 0:
            r = sh(['patch', '-p1', '-i', os.path.join(d, 'patch.diff')], cwd=tmp)
        out['applies'] = r.returncode == 0
        if not out['applies']:
            out['apply_error'] = (r.stderr + r.stdout)[-400:]
            print(json.dumps(out, indent=1))
            return
        env = dict(os.environ, CARGO_NET_OFFLINE='true', CARGO_TARGET_DIR=os.path.join(VERIF, '.cache', 'seeded-target' + os.environ.get('SEED_WORKER', '')))
        r = sh(['cargo', 'build', '--offline'], cwd=tmp, env=env)
        out['builds'] = r.returncode == 0
        if not out['builds']:
            out['build_error'] = r.stderr[-600:]
            print(json.dumps(out, indent=1))
            return
        r = sh(['cargo', 'nextest', 'run', '--workspace', '--no-fail-fast', '--offline', '--test-threads', '8'], cwd=tmp, env=env)
        m = re.search(r'(\d+) tests run: (\d+) passed(?: \(\d+ leaky\))?, (\d+) failed', r.stdout + r.stderr)
        out['tests'] = m.group(0) if m else (r.stderr[-300:])
        # 48 stable tests before the splat fix (005f778), 49 since: `splat_call` passes now; `demos` overflows the debug stack
        out['baseline_ok'] = bool(m and m.group(2) in ('48', '49') and int(m.group(3)) <= 2)
        demo = os.path.join(d, 'demo.noul')
        if os.path.exists(demo):
            exp = None
            for nm in ('expected_output.txt', 'expected.txt', 'demo.expected'):
                if os.path.exists(os.path.join(d, nm)):
                    exp = open(os.path.join(d, nm)).read().strip()
                    break
            mut = sh([os.path.join(VERIF, '.cache', 'seeded-target' + os.environ.get('SEED_WORKER', ''), 'debug', 'noulith'), demo], cwd=d)
            orig = sh([os.path.join(REPO, 'target', 'debug', 'noulith'), demo], cwd=d)
            out['demo_unchanged_matches_expected'] = (exp is not None and orig.stdout.strip() == exp)
            out['demo_changed_differs'] = (mut.stdout.strip() != orig.stdout.strip()) or mut.returncode != orig.returncode
            out['demo_changed_rc'] = mut.returncode
            out['demo_changed_tail'] = (mut.stdout + mut.stderr)[-300:]
        checks = {}
        for p in props:
            r = sh([sys.executable, os.path.join(HERE, 'check.py'), p, '--no-evidence'], env=dict(os.environ, VERIF_REPO=tmp))
            checks[p] = dict(rc=r.returncode, lines=[l[:260] for l in r.stdout.splitlines() if l.startswith(('VIOLATION', 'UNDECIDED', 'KNOWN'))][:5])
        out['checks'] = checks
        print(json.dumps(out, indent=1))
    finally:
        shutil.rmtree(tmp, ignore_errors=True)


if __name__ == '__main__':
    main()
