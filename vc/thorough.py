"""Thorough tier extras: the sensitivity self-test. Every catalogued mutant of the property (vc/mutants/*.json) is applied to a
scratch copy of the tree under test and the QUICK check is run against it; the result goes into the evidence only (a surviving
breaking mutant is a weakness of the machinery, not a property violation, and never changes the exit code)."""
import glob
import json
import os

HERE = os.path.dirname(os.path.abspath(__file__))


def run(prop, cfg, scratch, src, log):
    if os.environ.get('VERIF_NO_MUTANTS'):
        return {}
    import run_mutant
    out = []
    os.environ['VERIF_NO_MUTANTS'] = '1'
    old_repo = os.environ.get('VERIF_REPO')
    os.environ['VERIF_REPO'] = scratch.repo   # mutants are applied to the tree under test
    run_mutant.REPO = scratch.repo
    try:
        for f in sorted(glob.glob(os.path.join(HERE, 'mutants', '*.json'))):
            if f.endswith('RESULTS.json'):
                continue
            m = json.load(open(f))
            props = m['property'] if isinstance(m['property'], list) else [m['property']]
            if prop not in props:
                continue
            m2 = dict(m, property=prop)
            tmpf = os.path.join(scratch.dir, 'mutant-' + os.path.basename(f))
            json.dump(m2, open(tmpf, 'w'))
            r = run_mutant.run(tmpf)
            rc = r.get('results', {}).get(prop, {}).get('rc')
            out.append(dict(mutant=os.path.basename(f)[:-5], kind=m.get('kind', 'breaking'), note=m.get('note'), exit=rc,
                            as_expected=(rc == 1 if m.get('kind', 'breaking') == 'breaking' else rc == 0),
                            first_line=(r.get('results', {}).get(prop, {}).get('tail') or [''])[0][:200], error=r.get('error')))
    finally:
        if old_repo is None:
            os.environ.pop('VERIF_REPO', None)
        else:
            os.environ['VERIF_REPO'] = old_repo
        os.environ.pop('VERIF_NO_MUTANTS', None)
    return dict(sensitivity_self_test=dict(
        mutants_run=len(out), breaking_detected=sum(1 for o in out if o['kind'] == 'breaking' and o['as_expected']),
        breaking_total=sum(1 for o in out if o['kind'] == 'breaking'),
        benign_quiet=sum(1 for o in out if o['kind'] == 'benign' and o['as_expected']),
        benign_total=sum(1 for o in out if o['kind'] == 'benign'), results=out))
