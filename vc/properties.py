"""Per-property configuration: which units are verified, and the stated limits."""

EXTRACTION_DROPS = [
    'everything in /repo not named in vc/units/*.py',
    '#[derive(..)] lists reduced to Clone, Copy, Debug',
    'format!/write!/panic!/todo!/unreachable! invocations are kept; the prelude defines same-named macros '
    '(format!/write! -> opaque value, arguments not evaluated; panic!/todo!/unreachable! -> fn vpanic() requires false)',
    'payload types the extracted bodies never inspect are opaque prelude types (subst rules recorded per item)',
    'use lines replaced by the prelude',
    'return type `-> T` rewritten to `-> (r: T)`; requires/ensures/invariant/decreases and ghost-only proof hints spliced in',
]

ASSUMPTIONS = [
    'Verus 0.2026.09.13 + Z3 are sound; rustc type/borrow checking of /repo (no unsafe in src/, scanned each run)',
    'every external_body / assume_specification / uninterp item of the prelude (coverage.trusted_base lists them all)',
    'the driver code around the verified functions (evaluate, builtin registration, parser) is not verified',
]

PROPS = {
    'C07': dict(
        units=['nnum', 'builtins'],
        not_covered='vectorisation wrappers, float/complex arithmetic values, int()/rational()/float() conversion builtins',
    ),
    'C06': dict(
        units=['nint', 'nnum', 'builtins'],
        not_covered='lazy_is_prime / lazy_factorize / even / odd; literal parsing',
    ),
    'C08': dict(
        units=['nint', 'nnumcmp'],
        not_covered='Obj/Seq PartialOrd (std Vec comparison), ncmp, ComparisonOperator, Extremum, sorted; incomparable kinds raise',
    ),
    'C09': dict(
        units=['nint', 'nnumcmp'],
        not_covered='dictionary operations (std HashMap + closures in lib.rs); Dict-inside-key arm',
    ),
    'C12': dict(
        units=['istype'],
        not_covered='pattern matching, switch, destructuring, annotation enforcement on assignment paths, satisfying types',
    ),
    'C10': dict(
        units=['index'],
        not_covered='index/slice_seq/set_index and the take/drop/... builtins that call these kernels; stream indexing by iteration',
    ),
}
