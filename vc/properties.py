"""Per-property configuration: which units are verified, and the stated limits."""

EXTRACTION_DROPS = [
    'everything in /repo not named in vc/units/*.py',
    '#[derive(..)] lists reduced to Clone, Copy, Debug',
    'format!/write!/panic!/todo!/unreachable! invocations are kept; the prelude defines same-named macros '
    '(format!/write! -> opaque value, arguments not evaluated; panic!/todo!/unreachable! -> fn vpanic() requires false)',
    'payload types the extracted bodies never inspect are opaque prelude types (subst rules recorded per item)',
    'use lines replaced by the prelude',
    'return type `-> T` rewritten to `-> (r: T)`; requires/ensures/invariant/decreases and ghost-only proof hints spliced in',
]

ASSUMPTIONS = [
    'Verus 0.2026.09.13 + Z3 are sound; rustc type/borrow checking of /repo (no unsafe in src/, scanned each run)',
    'every external_body / assume_specification / uninterp item of the prelude (coverage.trusted_base lists them all)',
    'the driver code around the verified functions (evaluate, builtin registration, parser) is not verified',
]

PROPS = {
    'C07': dict(
        units=['nnum', 'builtins'],
        not_covered='vectorisation wrappers, float/complex arithmetic values, int()/rational()/float() conversion builtins',
    ),
    'C03': dict(
        units=['chain'], kani='quick',
        not_covered='that evaluate() feeds new/give/finish in order and evaluates each operand once; the one-operator fast path and ChainSection; try_chain tables of the builtins',
    ),
    'C06': dict(
        units=['nint', 'nnum', 'builtins', 'nnumcmp'],
        not_covered='lazy_is_prime / lazy_factorize / even / odd; literal parsing',
    ),
    'C08': dict(
        units=['nint', 'nnumcmp'],
        not_covered='Obj/Seq PartialOrd (std Vec comparison), ncmp, ComparisonOperator, Extremum, sorted; incomparable kinds raise',
    ),
    'C09': dict(
        units=['nint', 'nnumcmp', 'keys', 'objctors'],
        not_covered='dictionary operations (std HashMap + closures in lib.rs); total_eq_of_key_seqs (Iterator::all: assumed); the words of a dictionary nested inside a key '
                    '(std DefaultHasher); that every ObjKey is made by to_key (private field)',
    ),
    'C11': dict(
        units=['rangeu', 'streamdef'],
        not_covered='Stream::force (std collect into Result, assumed), Stream::pythonic_slice (Vec::drain), lazy adaptors, combinatorial streams, infinite streams',
    ),
    'C16': dict(
        units=['display', 'radix'],
        not_covered='parse_decimal_exactly/parse_rational_exactly, int(str(n)), hex/base64/utf8/gzip/json codecs, chr/ord, repr',
    ),
    'C14': dict(
        units=['index', 'accessors', 'nint', 'nnum', 'nnumcmp', 'builtins', 'istype', 'rangeu', 'streamdef', 'seqlib', 'radix', 'keys', 'objctors'],
        not_covered='every function not under contract (the other ~340 builtins, evaluate, assign_all, set_index, streams other than '
                    'Range/WrappedVec, the parser); try/catch containment and "interpreter still usable" are whole-program claims',
    ),
    'C12': dict(
        units=['istype'],
        not_covered='pattern matching, switch, destructuring, annotation enforcement on the assignment paths after declaration (assign_respecting_type: RefCell, closures), satisfying types',
    ),
    'C13': dict(
        units=['seqlib'],
        not_covered='everything except the seven helpers under contract: the multi!/multimulti! kind dispatch, sorted/sorted_by/sorted_on (std sort_by + '
                    'closures), uniqued/classified_with (std HashSet/HashMap), grouped_by, drop_while_inner (Peekable), Zip/ZipLongest/'
                    'CartesianProduct/Fold/Scan/Merge/Count/Extremum, SeqAndMappedFoldBuiltin, the one-liners registered in initialize, and the '
                    'combinatorial streams; user callbacks are an uninterpreted function of (callee, arguments), effects not modelled',
    ),
    'C15': dict(
        units=['lexnum'],
        not_covered='everything of the lexer and parser except the two integer-literal kernels: Lexer::lex (token dispatch, decimal / float / rational / imaginary '
                    'literals, 0x/0b/0o and NrDIGITS prefixes that select the radix), string escapes, format strings, the recursive-descent parser (totality), '
                    'literal evaluation; the assumed contracts of Lexer::peek/next/emit (Peekable<Chars>, Vec::push); termination of the two loops '
                    '(each iteration consumes a character of a finite text; not proved because the lexer state is opaque)',
    ),
    'C10': dict(
        units=['index', 'accessors', 'streamdef', 'rangeu', 'objctors'], kani='thorough',
        not_covered='set_index, pop/remove/|.., uncons/unsnoc (Rc::make_mut, String::remove, HashMap), First/Last::run (few()), the predicate forms of take/drop, Stream::pythonic_slice, overrides of the stream methods other than Cycle\'s',
    ),
}


TECHNIQUE = 'contract-based deductive verification (Verus/Z3) of mechanically extracted real functions'

TEXT = {
    'C03': ('Verus proves that ChainEvaluator (new / give* / finish) returns, whenever it returns Ok, exactly the value of the '
            'precedence-climbing parse of the chain written independently of the stack code: tighter operators first, ties by the '
            'left operator\'s associativity, chainable operators merged into one n-ary application keeping the first precedence '
            'exactly when the left one would otherwise apply first; for every chain length and every precedence assignment. '
            'Operator application and chainability are uninterpreted functions of the operator values. The tightness kernel '
            'Precedence::tighter_than_when_before is assumed in the Verus leg and proved by the Kani leg over all f64 x f64 x Assoc^2.'),
    'C06': ('Verus proves, for every NInt/NNum operand pair in either representation (machine word or big integer), that the '
            '90 functions of nint.rs, the integer arms of the numeric tower in nnum.rs and the arithmetic builtin closures of '
            'lib.rs return the mathematically exact result stated on the abstract value (view) only, so the result cannot '
            'depend on the representation; exact values of BigInt operations are assumed from num-bigint.'),
    'C07': ('Verus proves that every binary operator of the numeric tower returns a value at the higher of the operand levels '
            'equal to the operation at that level on the converted operands (exact on int/rational, uninterpreted on '
            'float/complex), that / yields the exact fraction and falls back to float on a zero divisor, that // floors and '
            '%% is the floor remainder on rationals, and that the rounding family agrees with exact arithmetic.'),
    'C08': ('Verus proves that == and <=> on real numbers of any two levels are decided by the exact extended-real value '
            '(NaN unordered and unequal, complex lexicographic), and that min/max are driven by total orders extending it.'),
    'C09': ('Verus proves the Eq/Hash agreement that HashMap needs for keys of any nesting depth: the words a number hashes to are a '
            'function of its exact value (key-equal numbers, == or both NaN, write identical words), total_hash_of_key writes key_words(k), a '
            'function of the key defined by recursion over lists / vectors / text / bytes, and lemma_key_words_of_equal_keys shows that '
            'key-equal values without dictionaries inside write identical words; check_if_valid_key / to_key accept exactly the hashable '
            'values (no stream, function or instance at any depth), which makes the panics of the hasher unreachable.'),
    'C10': ('Verus proves, for every isize index and every slice length, that the index/slice kernels of core.rs compute '
            'Python\'s index/clamp/slice functions and cannot overflow or panic; that eval.rs::index (the interpreter\'s s[i]) returns '
            'the element at the Python index on lists, bytes, vectors and strings (by UTF-8 byte) and raises an index error exactly when '
            'Python would; that eval.rs::slice_seq returns the Python subrange element for element; and that the default '
            'Stream::pythonic_index_isize returns the item iteration reaches (index error past the end; negative indices from the end of '
            'the forced stream). The accessor builtins are proved to be the index / slice expression they stand for: eval.rs::slice, the closures registered as '
            'second / third / tail / butlast / take n / drop n, First::run and Last::run (through few.rs::few / few2, also under contract) and the *_ok '
            'conversion wrappers of core.rs.'),
    'C11': ('Verus proves for integer ranges with any step sign and any magnitude that the emptiness test, next/peek and the '
            'closed-form len() agree with the iteration that next() performs; the same for WrappedVec and Cycle; and, for an arbitrary '
            'lawful finite stream, that the default methods len / pythonic_index_isize / reversed agree with iteration.'),
    'C16': ('Verus proves that the Display/LowerHex/UpperHex/Binary/Octal impls of NInt (and the integer arm of NNum) write the '
            'sign-magnitude rendering of the abstract value, so the text cannot depend on the representation (assuming std\'s and '
            'num-bigint\'s formatting behaviour); and that the str_radix / int_radix closures of lib.rs write and read positional '
            'notation: str_radix(n, b) is THE base-b numeral of n (digits below b, no leading zero, sign first, positional value |n|) and '
            'int_radix reads exactly the digit strings below the base as their positional value (so int_radix(str_radix(n, b), b) == n), '
            'for every n and every base 2..36. Only these clauses of C16 are decided by proof.'),
    'C14': ('For every function under contract in the other units Verus proves panic-freedom for all inputs satisfying the '
            'stated preconditions: no arithmetic overflow, no division by zero, no out-of-range cast or index, no reachable '
            'panic!/todo!/unreachable!/expect, and every precondition that encodes a dependency panic (BigInt division by '
            'zero, reciprocal of zero, num-rational pow) is discharged at the builtin closures that call it.'),
    'C13': ('Verus proves seven of the kind-independent sequence helpers of lib.rs against their one-line definitions, for every input length '
            'and every element type (vstd iterator model): reversed = reverse; prefixes / reversed_prefixes = one (reversed) prefix per length in '
            'order; grouped = consecutive chunks of n with group\' refusing a leftover; take_while_inner = the longest prefix whose elements '
            'all pass, the next element having been tested and failed; filtered = exactly the elements whose test differs from neg, order '
            'kept (filter / reject); windowed (window n, n > 0 established by the only caller) = one window per start position, window i being the n consecutive items '
            'from position i, nothing when the input is shorter than n (the copy `window.iter().cloned().collect()` is a trusted helper); an erroring item or callback is raised. Only these helpers are decided by proof.'),
    'C15': ('Verus proves the two integer-literal kernels of the lexer against positional notation: lex_base_and_emit (behind NrDIGITS, 0x, 0b, 0o) consumes '
            'exactly the longest run of digits below the radix and emits one IntLit whose value is the positional value of that run, for every radix 2..36 and '
            'every length; lex_base_64_and_emit does the same for 64r literals (A-Z a-z 0-9 +- /_). Only these kernels are decided by proof; totality of '
            'parse and every other literal form are covered by the bounded stand-in only.'),
    'C12': ('Verus proves the type-predicate kernel: is_type(type_of(v), v) and is_type(anything, v) hold for every value, '
            'number accepts every numeric level, and builtin types classify by constructor; and struct construction (call_type): the '
            'result is an instance of that struct holding the arguments followed by the defaults of the remaining fields, Ok exactly when '
            'every field not given has a default; and declaration (eval.rs::insert_declare): an annotated declaration whose value is not of the annotated '
            'type is refused, otherwise the variable is created with exactly that type and value (the environment itself is opaque).'),
}
BOUNDED_NOTE = (' In addition a BOUNDED stand-in (a grid of programs run on the real interpreter built from the tree, compared with exact '
                'reference semantics; bounds in evidence coverage.bounded) covers the functions this property depends on that no verifier '
                'reaches; it is labelled bounded and not counted as proved.')
NOTE = ('trusted: Verus/Z3; the prelude\'s assumed contracts on num-bigint/num-rational/f64/std (listed in evidence '
        'coverage.trusted_base); functions not named in vc/units are not verified')
