"""Kani function-contract legs (secondary verifier): loop-free functions over machine scalars, proved for the FULL input
domain by `proof_for_contract` (complete, not bounded). The contract attribute lines are injected above the real function in
a scratch copy of the crate and a `#[cfg(kani)]` harness module is appended to lib.rs; /repo is never touched.
A failing leg yields CBMC's counterexample (concrete playback), which is decoded and re-run against the real code."""
import os
import re
import shutil
import struct
import subprocess
import time

HERE = os.path.dirname(os.path.abspath(__file__))
VERIF = os.path.dirname(HERE)

LEGS = {
    'chain': [dict(
        id='tighter_than_when_before', props=['C03'], file='src/core.rs',
        anchor='    pub fn tighter_than_when_before(&self, other: &Precedence) -> bool {',
        # "tighter first; on a tie (NaN counts as a tie) the LEFT operator's associativity decides"
        attrs=['    #[cfg_attr(kani, kani::ensures(|r: &bool| *r == (self.0 > other.0 || (!(self.0 < other.0) && !(self.0 > other.0) && matches!(self.1, Assoc::Left)))))]'],
        harness='check_tighter',
        inputs=[('a', 'f64'), ('b', 'f64'), ('la', 'bool'), ('lb', 'bool')],
        harness_code='''
    #[kani::proof_for_contract(Precedence::tighter_than_when_before)]
    fn check_tighter() {
        let a: f64 = kani::any();
        let b: f64 = kani::any();
        let la: bool = kani::any();
        let lb: bool = kani::any();
        let p = Precedence(a, if la { Assoc::Left } else { Assoc::Right });
        let q = Precedence(b, if lb { Assoc::Left } else { Assoc::Right });
        kani::cover!(a.is_nan());
        kani::cover!(a == b && !la);
        p.tighter_than_when_before(&q);
    }''',
        replay_test='''
    #[test]
    fn verif_replay_tighter() {
        let (a, b, la, lb): (f64, f64, bool, bool) = (@a@, @b@, @la@, @lb@);
        let p = Precedence(a, if la { Assoc::Left } else { Assoc::Right });
        let q = Precedence(b, if lb { Assoc::Left } else { Assoc::Right });
        let expected = a > b || (!(a < b) && !(a > b) && la);
        let actual = p.tighter_than_when_before(&q);
        println!("VERIF-REPLAY tighter_than_when_before a={:?} b={:?} left_assoc(a)={} expected={} actual={}", a, b, la, expected, actual);
        assert_eq!(expected, actual);
    }''',
        uses='use crate::core::*;',
    )],
    'index': [dict(
        id='clamped_pythonic_index', props=['C10'], file='src/core.rs',
        anchor='pub fn clamped_pythonic_index<T>(xs: &[T], i: isize) -> usize {',
        attrs=['#[cfg_attr(kani, kani::ensures(|r: &usize| { let len = xs.len() as i128; let i = i as i128; (*r as i128) == (if i >= 0 { if i < len { i } else { len } } else if i + len < 0 { 0 } else { i + len }) }))]'],
        harness='check_clamped',
        inputs=[('len', 'usize'), ('i', 'isize')],
        harness_code='''
    #[kani::proof_for_contract(clamped_pythonic_index)]
    fn check_clamped() {
        let len: usize = kani::any();
        kani::assume(len <= isize::MAX as usize);
        let i: isize = kani::any();
        // a slice of zero-sized elements: any length is a valid object
        let xs: &[()] = unsafe { std::slice::from_raw_parts(std::ptr::NonNull::<()>::dangling().as_ptr(), len) };
        kani::cover!(i < 0 && len > 3);
        clamped_pythonic_index(xs, i);
    }''',
        replay_test='''
    #[test]
    fn verif_replay_clamped() {
        let (len, i): (usize, isize) = (@len@, @i@);
        let xs: Vec<()> = vec![(); len.min(1 << 40)];
        let l = xs.len() as i128; let ii = i as i128;
        let expected = if ii >= 0 { if ii < l { ii } else { l } } else if ii + l < 0 { 0 } else { ii + l };
        let actual = clamped_pythonic_index(&xs, i) as i128;
        println!("VERIF-REPLAY clamped_pythonic_index len={} i={} expected={} actual={}", xs.len(), i, expected, actual);
        assert_eq!(expected, actual);
    }''',
        uses='use crate::core::*;',
    )],
}


def _fill(template, vals):
    for name, v in vals.items():
        template = template.replace('@%s@' % name, str(v))
    return template


def decode(inputs, byte_vecs):
    vals = {}
    for (name, ty), bs in zip(inputs, byte_vecs):
        b = bytes(bs)
        if ty == 'f64':
            v = struct.unpack('<d', b)[0]
            vals[name] = 'f64::from_bits(0x%016x)' % struct.unpack('<Q', b)[0]
            vals[name + '_pretty'] = repr(v)
        elif ty == 'bool':
            vals[name] = 'true' if b[0] & 1 else 'false'
        elif ty in ('usize', 'u64'):
            vals[name] = str(struct.unpack('<Q', b)[0]) + ty
        elif ty in ('isize', 'i64'):
            vals[name] = str(struct.unpack('<q', b)[0]) + ty
        else:
            vals[name] = repr(list(b))
    return vals


def prepare(scratch, legs):
    kdir = os.path.join(scratch.dir, 'kani_repo')
    if os.path.exists(kdir):
        shutil.rmtree(kdir)
    shutil.copytree(scratch.repo, kdir, ignore=shutil.ignore_patterns('target'))
    lost = []
    mods = []
    for leg in legs:
        p = os.path.join(kdir, leg['file'])
        t = open(p).read()
        if t.count(leg['anchor']) != 1:
            lost.append('%s: kani anchor lost (%d matches)' % (leg['id'], t.count(leg['anchor'])))
            continue
        t = t.replace(leg['anchor'], '\n'.join(leg['attrs']) + '\n' + leg['anchor'])
        open(p, 'w').write(t)
        mods.append(leg)
    lib = os.path.join(kdir, 'src', 'lib.rs')
    t = open(lib).read()
    t += '\n#[cfg(kani)]\n#[allow(unused_imports)]\nmod verif_kani {\n' + ''.join(sorted({l['uses'] + '\n' for l in mods})) + \
         ''.join(l['harness_code'] + '\n' for l in mods) + '}\n'
    open(lib, 'w').write(t)
    return kdir, mods, lost


def kani_cmd(harness, extra=()):
    return ['timeout', os.environ.get('VERIF_KANI_TIMEOUT', '600'), 'cargo', 'kani', '-Z', 'function-contracts', '-Z', 'stubbing',
            '--harness', harness] + list(extra)


def run(unit_names, scratch, log):
    """-> dict(obligations=[...], failures=[...], undecided=[...], info=[...])"""
    legs = [l for u in unit_names for l in LEGS.get(u, [])]
    out = dict(obligations=[], failures=[], undecided=[], info=[])
    if not legs:
        return out
    kdir, mods, lost = prepare(scratch, legs)
    for l in lost:
        out['undecided'].append('kani: ' + l)
    env = dict(os.environ, CARGO_NET_OFFLINE='true', CARGO_TARGET_DIR=os.path.join(VERIF, '.cache', 'kani-target'))
    env.pop('RUSTUP_TOOLCHAIN', None)
    import fcntl
    os.makedirs(env['CARGO_TARGET_DIR'], exist_ok=True)
    lock = open(os.path.join(env['CARGO_TARGET_DIR'], '.verif-lock'), 'w')
    fcntl.flock(lock, fcntl.LOCK_EX)   # concurrent checks of different trees share this target dir
    import replay_search
    replay_search.forget_crate(env['CARGO_TARGET_DIR'])
    for leg in mods:
        oid = 'kani.%s.contract' % leg['id']
        out['obligations'].append(dict(id=oid, item=leg['id'], kind='kani-contract', props=list(leg['props']),
                                       note='Kani proof_for_contract over the full input domain (loop-free => complete)'))
        t0 = time.time()
        r = subprocess.run(kani_cmd(leg['harness']), cwd=kdir, env=env, capture_output=True, text=True)
        txt = r.stdout + r.stderr
        wall = time.time() - t0
        m = re.search(r'\*\* (\d+) of (\d+) failed', txt)
        cov = re.search(r'\*\* (\d+) of (\d+) cover properties satisfied', txt)
        info = dict(leg=leg['id'], harness=leg['harness'], wall_s=round(wall, 1), cmd=' '.join(kani_cmd(leg['harness'])),
                    checks=int(m.group(2)) if m else None, failed_checks=int(m.group(1)) if m else None,
                    covers=cov.group(0) if cov else None)
        out['info'].append(info)
        if 'VERIFICATION:- SUCCESSFUL' in txt and m and int(m.group(1)) == 0:
            if cov and cov.group(1) != cov.group(2):
                out['undecided'].append('kani %s: a reachability cover is unsatisfied (vacuous harness?)' % leg['id'])
            continue
        if 'VERIFICATION:- FAILED' in txt:
            failed = re.findall(r'Check \d+: ([^\n]*)\n\s*- Status: FAILURE\n\s*- Description: "(.{0,400}?)"\n', txt, re.S)
            f = dict(unit='kani', item=leg['id'], kind='kani', obligation=oid, props=list(leg['props']),
                     message='Kani: contract of %s violated (%s)' % (leg['id'], '; '.join(d for _c, d in failed[:3])[:300]),
                     rendered='\n'.join('%s: %s' % fd for fd in failed[:10]), src=leg['file'], leg=leg)
            # concrete counterexample from CBMC
            r2 = subprocess.run(kani_cmd(leg['harness'], ['-Z', 'concrete-playback', '--concrete-playback=print']), cwd=kdir, env=env,
                                capture_output=True, text=True)
            blocks = [b for b in r2.stdout.split('Concrete playback unit test')[1:] if '`cover`' not in b]
            vecs = re.findall(r'vec!\[([0-9, ]*)\]', blocks[0] if blocks else '')
            byte_vecs = [[int(x) for x in v.split(',') if x.strip()] for v in vecs if v.strip()]
            if len(byte_vecs) >= len(leg['inputs']):
                f['cex'] = decode(leg['inputs'], byte_vecs[:len(leg['inputs'])])
            out['failures'].append(f)
        else:
            out['undecided'].append('kani %s: no verdict (timeout / unsupported construct / build error): %s' % (leg['id'], txt[-300:].replace('\n', ' ')))
    return out


def replay_real(leg, cex, repo, log=print):
    """run the decoded counterexample against the REAL crate (plain rustc test build of a scratch copy of `repo`)"""
    import tempfile
    tmp = tempfile.mkdtemp(prefix='noulith-replay.', dir=os.environ.get('VERIF_SCRATCH', '/var/tmp'))
    try:
        subprocess.check_call(['rsync', '-a', '--exclude', '/target', '--exclude', '/.git', repo + '/', tmp + '/'])
        lib = os.path.join(tmp, 'src', 'lib.rs')
        t = open(lib).read()
        t += '\n#[cfg(test)]\nmod verif_replay {\n    ' + leg['uses'] + '\n' + _fill(leg['replay_test'], cex) + '\n}\n'
        open(lib, 'w').write(t)
        env = dict(os.environ, CARGO_NET_OFFLINE='true', CARGO_TARGET_DIR=os.path.join(VERIF, '.cache', 'replay-target'))
        import fcntl
        import replay_search
        os.makedirs(env['CARGO_TARGET_DIR'], exist_ok=True)
        with open(os.path.join(env['CARGO_TARGET_DIR'], '.verif-lock'), 'w') as lk:
            fcntl.flock(lk, fcntl.LOCK_EX)
            replay_search.forget_crate(env['CARGO_TARGET_DIR'])
            r = subprocess.run(['cargo', 'test', '--offline', '--lib', 'verif_replay', '--', '--nocapture'], cwd=tmp, env=env,
                               capture_output=True, text=True)
        lines = [l for l in (r.stdout + r.stderr).splitlines() if 'VERIF-REPLAY' in l or 'panicked' in l or 'test result' in l]
        return r.returncode, lines
    finally:
        shutil.rmtree(tmp, ignore_errors=True)
