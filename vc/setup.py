#!/usr/bin/env python3
"""setup_cmd: pre-build (offline) the dependency artefacts that macro expansion needs, so that checks only
recompile the noulith crate itself. Safe to re-run; everything lands under /verif/.cache."""
import os, shutil, subprocess, sys, tempfile
VERIF = os.path.dirname(os.path.dirname(os.path.abspath(__file__)))
REPO = os.environ.get('VERIF_REPO', '/repo')
tmp = tempfile.mkdtemp(prefix='noulith-verif-setup.', dir=os.environ.get('VERIF_SCRATCH', '/var/tmp'))
try:
    subprocess.check_call(['rsync', '-a', '--exclude', '/target', '--exclude', '/.git', REPO + '/', tmp + '/repo/'])
    env = dict(os.environ, RUSTC_BOOTSTRAP='1', CARGO_NET_OFFLINE='true',
               CARGO_TARGET_DIR=os.path.join(VERIF, '.cache', 'expand-target'))
    env.pop('RUSTUP_TOOLCHAIN', None)
    r = subprocess.run(['cargo', 'rustc', '--lib', '--offline', '--', '-Zunpretty=expanded'], cwd=tmp + '/repo', env=env,
                       stdout=subprocess.DEVNULL)
    if r.returncode != 0:
        print('setup: expansion pre-build failed', file=sys.stderr)
        sys.exit(1)
    # Kani dependency artefacts (the crate itself is rebuilt by every check that has a Kani leg)
    kenv = dict(os.environ, CARGO_NET_OFFLINE='true', CARGO_TARGET_DIR=os.path.join(VERIF, '.cache', 'kani-target'))
    kenv.pop('RUSTUP_TOOLCHAIN', None)
    open(tmp + '/repo/src/lib.rs', 'a').write('\n#[cfg(kani)]\nmod verif_kani_setup { #[kani::proof] fn warm() { assert!(1 + 1 == 2); } }\n')
    r = subprocess.run(['timeout', '1200', 'cargo', 'kani', '--harness', 'warm'], cwd=tmp + '/repo', env=kenv,
                       stdout=subprocess.DEVNULL, stderr=subprocess.DEVNULL)
    if r.returncode != 0:
        print('setup: kani warm-up failed (Kani legs will report UNDECIDED)', file=sys.stderr)
    # debug build of the real interpreter used by the replay search / bounded stand-in
    renv = dict(os.environ, CARGO_NET_OFFLINE='true', CARGO_TARGET_DIR=os.path.join(VERIF, '.cache', 'replay-target'))
    renv.pop('RUSTUP_TOOLCHAIN', None)
    subprocess.run(['cargo', 'build', '--offline'], cwd=tmp + '/repo', env=renv, stdout=subprocess.DEVNULL, stderr=subprocess.DEVNULL)
    r = subprocess.run(['verus', '--version'], stdout=subprocess.DEVNULL)
    sys.exit(r.returncode)
finally:
    shutil.rmtree(tmp, ignore_errors=True)
