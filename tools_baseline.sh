#!/bin/sh
# baseline with the guard off (there are no hooks): 48 stable tests must pass; demos/splat_call fail on the pinned tree too
cd /repo && cargo nextest run --workspace --no-fail-fast --offline --test-threads 8 2>&1 | grep -E "Summary|FAIL|SIGABRT" 
